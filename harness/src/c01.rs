//! C01 / C08 / C11: the lazy reader through the native provider functions.
//! A case = one input document (fresh thread) + a history of read calls whose scope is any
//! earlier answer.  Histories are generated adaptively from the implementation's own answers and,
//! for well-formed documents, a mirror of the document tree (so names/indices mostly hit).
use crate::{prng::*, wire::*, Args, Out};
use shopify_function_provider as provider;
use shopify_function_wasm_api_core::read::{NanBox, Val, ValueRef};

#[derive(Clone, Debug)]
pub enum Sc { Ans(usize), Garbage }
#[derive(Clone, Debug)]
pub enum Op { Root, Prop(Sc, Vec<u8>), IProp(Sc, Vec<u8>), Idx(Sc, usize), Key(Sc, usize), Len(Sc), Str(Sc), ALen(Sc), AStr(Sc), AKey(Sc, usize), AIdx(Sc, usize), AProp(Sc, Vec<u8>) }

fn sc_txt(s: &Sc) -> String { match s { Sc::Ans(k) => format!("{}", k), Sc::Garbage => "g".into() } }
pub fn op_txt(op: &Op) -> String {
    match op {
        Op::Root => "ROOT".into(),
        Op::Prop(s, n) => format!("PROP {} {}", sc_txt(s), hex(n)),
        Op::IProp(s, n) => format!("IPROP {} {}", sc_txt(s), hex(n)),
        Op::Idx(s, i) => format!("IDX {} {}", sc_txt(s), i),
        Op::Key(s, i) => format!("KEY {} {}", sc_txt(s), i),
        Op::Len(s) => format!("LEN {}", sc_txt(s)),
        Op::Str(s) => format!("STR {}", sc_txt(s)),
        Op::ALen(s) => format!("ALEN {}", sc_txt(s)),
        Op::AStr(s) => format!("ASTR {}", sc_txt(s)),
        Op::AKey(s, i) => format!("AKEY {} {}", sc_txt(s), i),
        Op::AIdx(s, i) => format!("AIDX {} {}", sc_txt(s), i),
        Op::AProp(s, n) => format!("APROP {} {}", sc_txt(s), hex(n)),
    }
}
pub fn parse_op(line: &str) -> Option<Op> {
    let t: Vec<&str> = line.split_whitespace().collect();
    let sc = |s: &str| if s == "g" { Sc::Garbage } else { Sc::Ans(s.parse().unwrap()) };
    Some(match t.as_slice() {
        ["ROOT"] => Op::Root,
        ["PROP", s, n] => Op::Prop(sc(s), unhex(n)),
        ["IPROP", s, n] => Op::IProp(sc(s), unhex(n)),
        ["IDX", s, i] => Op::Idx(sc(s), i.parse().unwrap()),
        ["KEY", s, i] => Op::Key(sc(s), i.parse().unwrap()),
        ["LEN", s] => Op::Len(sc(s)),
        ["STR", s] => Op::Str(sc(s)),
        ["ALEN", s] => Op::ALen(sc(s)),
        ["ASTR", s] => Op::AStr(sc(s)),
        ["AKEY", s, i] => Op::AKey(sc(s), i.parse().unwrap()),
        ["AIDX", s, i] => Op::AIdx(sc(s), i.parse().unwrap()),
        ["APROP", s, n] => Op::AProp(sc(s), unhex(n)),
        _ => return None,
    })
}

/// What one call returned, in comparable form (never an address).
#[derive(Clone, Debug)]
pub enum Obs { Val(Val, String), Other(String) }

/// api::Value is a one-field wrapper of the raw NaN-boxed Val (same size; asserted).
pub fn api_value(v: Val) -> shopify_function_wasm_api::Value { assert_eq!(std::mem::size_of::<shopify_function_wasm_api::Value>(), std::mem::size_of::<Val>()); unsafe { std::mem::transmute_copy(&v) } }
pub fn raw_of(v: shopify_function_wasm_api::Value) -> Val { unsafe { std::mem::transmute_copy(&v) } }

pub fn garbage_val() -> Val { ((0x7FFCu128 << (Val::BITS - 16)) | (7u128 << (Val::BITS - 18))) as Val }

pub fn show_val(v: Val) -> String {
    match std::panic::catch_unwind(|| NanBox::from_bits(v).try_decode().map_err(|_| ())) {
        Err(_) => "VAL DECODE-PANIC".into(),
        Ok(Err(())) => "VAL DECERR".into(),
        Ok(Ok(r)) => match r {
            ValueRef::Null => "VAL NULL".into(),
            ValueRef::Bool(b) => format!("VAL BOOL {}", b as u8),
            ValueRef::Number(n) => format!("VAL NUM {:x}", n.to_bits()),
            ValueRef::String { len, .. } => format!("VAL STR {}", len),
            ValueRef::Array { len, .. } => format!("VAL ARR {}", len),
            ValueRef::Object { len, .. } => format!("VAL OBJ {}", len),
            ValueRef::Error(e) => format!("VAL ERR {}", e as usize),
        },
    }
}

pub struct Session { pub answers: Vec<Obs>, pub ids: std::collections::HashMap<Vec<u8>, usize> }

impl Session {
    pub fn new(doc: &[u8]) -> Session { provider::initialize_from_msgpack_bytes(doc.to_vec()); Session { answers: vec![], ids: std::collections::HashMap::new() } }
    fn scope(&self, s: &Sc) -> Val {
        match s { Sc::Garbage => garbage_val(), Sc::Ans(k) => match self.answers.get(*k) { Some(Obs::Val(v, _)) => *v, _ => garbage_val() } }
    }
    /// Execute one op against the real provider; every call under catch_unwind.
    pub fn exec(&mut self, op: &Op) -> String {
        let r = std::panic::catch_unwind(std::panic::AssertUnwindSafe(|| -> Obs {
            match op {
                Op::Root => { let v = provider::read::shopify_function_input_get(); Obs::Val(v, show_val(v)) }
                Op::Prop(s, name) => { let v = provider::read::shopify_function_input_get_obj_prop(self.scope(s), name.as_ptr() as usize, name.len()); Obs::Val(v, show_val(v)) }
                Op::IProp(s, name) => {
                    // a key is interned once per session and its id reused (what applications do), every third use interns it afresh
                    let reuse = self.ids.get(name).copied().filter(|_| self.answers.len() % 3 != 0);
                    let idn = match reuse { Some(i) => i, None => {
                        let r = provider::shopify_function_intern_utf8_str(name.len());
                        unsafe { std::ptr::copy(name.as_ptr(), (r as usize) as *mut u8, name.len()) };
                        let i = (r >> usize::BITS) as usize; self.ids.insert(name.clone(), i); i } };
                    let v = provider::read::shopify_function_input_get_interned_obj_prop(self.scope(s), idn); Obs::Val(v, show_val(v)) }
                Op::Idx(s, i) => { let v = provider::read::shopify_function_input_get_at_index(self.scope(s), *i); Obs::Val(v, show_val(v)) }
                Op::Key(s, i) => { let v = provider::read::shopify_function_input_get_obj_key_at_index(self.scope(s), *i); Obs::Val(v, show_val(v)) }
                // ---- the same through the api::Value methods (C11): accessor-level lengths and strings
                Op::ALen(s) => { let v = api_value(self.scope(s));
                    let l = if v.is_array() { v.array_len() } else if v.is_obj() { v.obj_len() } else { v.as_string().map(|x| x.len()) };
                    Obs::Other(match l { Some(n) => format!("ALEN {}", n), None => "ALEN NONE".into() }) }
                Op::AStr(s) => { let v = api_value(self.scope(s)); Obs::Other(match v.as_string() { Some(x) => format!("ABYTES {}", crate::c03::digest(x.as_bytes())), None => "ABYTES NONE".into() }) }
                Op::AKey(s, i) => { let v = api_value(self.scope(s)); Obs::Other(match v.get_obj_key_at_index(*i) { Some(x) => format!("ABYTES {}", crate::c03::digest(x.as_bytes())), None => "ABYTES NONE".into() }) }
                Op::AIdx(s, i) => { let v = api_value(self.scope(s)).get_at_index(*i); let r = raw_of(v); Obs::Val(r, show_val(r)) }
                Op::AProp(s, n) => { let v = api_value(self.scope(s)).get_obj_prop(std::str::from_utf8(n).unwrap_or("?")); let r = raw_of(v); Obs::Val(r, show_val(r)) }
                Op::Len(s) => { let n = provider::read::shopify_function_input_get_val_len(self.scope(s)); Obs::Other(if n == usize::MAX { "LEN MAX".into() } else { format!("LEN {}", n) }) }
                Op::Str(s) => {
                    let v = self.scope(s);
                    match NanBox::from_bits(v).try_decode() {
                        Ok(ValueRef::String { ptr, .. }) => {
                            let len = provider::read::shopify_function_input_get_val_len(v);
                            let addr = provider::read::shopify_function_input_get_utf8_str_addr(ptr);
                            let (base, blen) = provider::read::verif_input_range();
                            if addr == 0 { Obs::Other("BYTES NONE".into()) }
                            else if len == usize::MAX || addr < base || addr - base + len > blen { Obs::Other("STRAY".into()) }
                            else { Obs::Other(format!("BYTES {}", hex(unsafe { std::slice::from_raw_parts(addr as *const u8, len) }))) }
                        }
                        _ => Obs::Other("BYTES NONE".into()),
                    }
                }
            }
        }));
        let o = match r { Ok(o) => o, Err(_) => Obs::Other("PANIC".into()) };
        let txt = match &o { Obs::Val(_, s) => s.clone(), Obs::Other(s) => s.clone() };
        self.answers.push(o);
        txt
    }
}


// ---------------------------------------------------------------------------------------------
// Crash isolation: documents are executed in a child process (this same binary, component
// `reader-child`), so that an abort (allocation failure, stack overflow) of the implementation
// is observed as an `ABORT` answer of the call that caused it instead of killing the harness.
// Protocol (child stdin): `JOB <seed> <nops> <stack_kib> <dochex> <pool hex,hex,..|-> <treeflag>` or `REPLAY <stack_kib> <dochex> <op>;<op>;...`
// (child stdout): `OP <op>` before each call, `OB <observation>` after it, `DONE` at the end of a job.
use std::io::{BufRead, BufReader, Write};

pub fn child_main() {
    let stdin = std::io::stdin();
    for line in stdin.lock().lines() {
        let line = line.unwrap();
        let t: Vec<&str> = line.split(' ').collect();
        match t[0] {
            "JOB" => {
                let seed: u64 = t[1].parse().unwrap(); let nops: usize = t[2].parse().unwrap(); let stack: usize = t[3].parse().unwrap();
                let doc = unhex(t[4]);
                let pool: Vec<Vec<u8>> = if t[5] == "-" { vec![] } else { t[5].split(',').map(unhex).collect() };
                let tree = if t[6] == "1" || t[6] == "2" { decode_wire(&doc) } else { None };
                let api = t[6] == "2";
                let prelude: Vec<Op> = if t.len() > 7 && t[7] != "-" { t[7..].join(" ").split(';').filter_map(parse_op).collect() } else { vec![] };
                std::thread::Builder::new().stack_size(stack << 10).spawn(move || {
                    let mut rng = Rng::new(seed);
                    API_MODE.with(|m| m.set(api));
                    gen_history_impl(&mut rng, &doc, tree.as_ref(), nops, &pool, true, &prelude);
                }).unwrap().join().ok();
                println!("DONE"); std::io::stdout().flush().unwrap();
            }
            "REPLAY" | "REPLAYF" => {
                // REPLAYF: the document is read from a file (hex parsing of large documents is very slow under Miri)
                let stack: usize = t[1].parse().unwrap(); let doc = if t[0] == "REPLAYF" { std::fs::read(t[2]).unwrap() } else { unhex(t[2]) };
                let ops: Vec<Op> = t[3..].join(" ").split(';').filter(|x| !x.is_empty()).filter_map(parse_op).collect();
                std::thread::Builder::new().stack_size(stack << 10).spawn(move || {
                    let mut s = Session::new(&doc);
                    for op in &ops { println!("OP {}", op_txt(op)); std::io::stdout().flush().unwrap(); let o = s.exec(op); println!("OB {}", o); std::io::stdout().flush().unwrap(); }
                }).unwrap().join().ok();
                println!("DONE"); std::io::stdout().flush().unwrap();
            }
            _ => {}
        }
    }
}

pub struct Child { proc: std::process::Child, rd: BufReader<std::process::ChildStdout>, wd: crate::Watchdog }
impl Child {
    pub fn spawn() -> Child {
        let exe = std::env::current_exe().unwrap();
        // address-space limit: an eager pre-allocation of a huge declared length fails instead of thrashing
        let mut proc = std::process::Command::new("sh").arg("-c").arg(format!("ulimit -v 8000000; exec {} reader-child", exe.display()))
            .stdin(std::process::Stdio::piped()).stdout(std::process::Stdio::piped()).stderr(std::process::Stdio::null()).spawn().unwrap();
        let rd = BufReader::new(proc.stdout.take().unwrap());
        // `sh -c "ulimit ..; exec <child>"`: the pid stays the child's
        let wd = crate::Watchdog::new(proc.id(), crate::HANG_LIMIT_MS);
        Child { proc, rd, wd }
    }
    /// Send a job line; collect (ops, observations). A dead child yields `ABORT` for the call in flight.
    pub fn job(&mut self, line: &str) -> (Vec<Op>, Vec<String>, bool) {
        let mut ops = vec![]; let mut obs = vec![];
        if writeln!(self.proc.stdin.as_mut().unwrap(), "{}", line).is_err() { return (ops, obs, true); }
        let _ = self.proc.stdin.as_mut().unwrap().flush();
        self.wd.arm();
        loop {
            let mut l = String::new();
            let r = self.rd.read_line(&mut l);
            self.wd.tick();
            match r {
                Ok(0) | Err(_) => { // child died (or was killed by the watchdog: a call that never returns)
                    if ops.len() > obs.len() { obs.push("ABORT".into()); }
                    let _ = self.proc.wait();
                    return (ops, obs, true);
                }
                Ok(_) => {
                    let l = l.trim_end();
                    if l == "DONE" { self.wd.disarm(); if ops.len() > obs.len() { obs.push("PANIC".into()); } return (ops, obs, false); }
                    else if let Some(o) = l.strip_prefix("OP ") { if let Some(op) = parse_op(o) { ops.push(op); } }
                    else if let Some(o) = l.strip_prefix("OB ") { obs.push(o.to_string()); }
                }
            }
        }
    }
}

pub struct Pool { child: Option<Child> }
impl Pool {
    pub fn new() -> Pool { Pool { child: None } }
    pub fn run(&mut self, line: &str) -> (Vec<Op>, Vec<String>) {
        if self.child.is_none() { self.child = Some(Child::spawn()); }
        let (ops, obs, dead) = self.child.as_mut().unwrap().job(line);
        if dead { self.child = None; }
        (ops, obs)
    }
}

/// Minimal decoder of well-formed documents back into `Wire` (only to aim ops in the child).
pub fn decode_wire(b: &[u8]) -> Option<Wire> {
    fn val(b: &[u8], p: &mut usize) -> Option<Wire> {
        let m = *b.get(*p)?; *p += 1;
        let be = |b: &[u8], p: &mut usize, k: usize| -> Option<u64> { let mut v = 0u64; for _ in 0..k { v = (v << 8) | *b.get(*p)? as u64; *p += 1; } Some(v) };
        let take = |b: &[u8], p: &mut usize, k: usize| -> Option<Vec<u8>> { let s = b.get(*p..*p + k)?.to_vec(); *p += k; Some(s) };
        Some(match m {
            0x00..=0x7f => Wire::Int(IntFmt::PFix, m as i128),
            0x80..=0x8f => return map(b, p, LenFmt::Fix, (m - 0x80) as usize),
            0x90..=0x9f => return arr(b, p, LenFmt::Fix, (m - 0x90) as usize),
            0xa0..=0xbf => Wire::Str(StrFmt::Fix, take(b, p, (m - 0xa0) as usize)?),
            0xc0 => Wire::Nil, 0xc2 => Wire::Bool(false), 0xc3 => Wire::Bool(true),
            0xca => Wire::F32(be(b, p, 4)? as u32), 0xcb => Wire::F64(be(b, p, 8)?),
            0xcc => Wire::Int(IntFmt::U8, be(b, p, 1)? as i128), 0xcd => Wire::Int(IntFmt::U16, be(b, p, 2)? as i128),
            0xce => Wire::Int(IntFmt::U32, be(b, p, 4)? as i128), 0xcf => Wire::Int(IntFmt::U64, be(b, p, 8)? as i128),
            0xd0 => Wire::Int(IntFmt::I8, be(b, p, 1)? as u8 as i8 as i128), 0xd1 => Wire::Int(IntFmt::I16, be(b, p, 2)? as u16 as i16 as i128),
            0xd2 => Wire::Int(IntFmt::I32, be(b, p, 4)? as u32 as i32 as i128), 0xd3 => Wire::Int(IntFmt::I64, be(b, p, 8)? as i64 as i128),
            0xd9 => { let l = be(b, p, 1)? as usize; Wire::Str(StrFmt::S8, take(b, p, l)?) }
            0xda => { let l = be(b, p, 2)? as usize; Wire::Str(StrFmt::S16, take(b, p, l)?) }
            0xdb => { let l = be(b, p, 4)? as usize; Wire::Str(StrFmt::S32, take(b, p, l)?) }
            0xdc => { let l = be(b, p, 2)? as usize; return arr(b, p, LenFmt::L16, l) }
            0xdd => { let l = be(b, p, 4)? as usize; return arr(b, p, LenFmt::L32, l) }
            0xde => { let l = be(b, p, 2)? as usize; return map(b, p, LenFmt::L16, l) }
            0xdf => { let l = be(b, p, 4)? as usize; return map(b, p, LenFmt::L32, l) }
            0xe0..=0xff => Wire::Int(IntFmt::NFix, m as i8 as i128),
            _ => return None,
        })
    }
    fn arr(b: &[u8], p: &mut usize, f: LenFmt, l: usize) -> Option<Wire> { if l > b.len() { return None; } let mut v = vec![]; for _ in 0..l { v.push(val(b, p)?); } Some(Wire::Arr(f, v)) }
    fn map(b: &[u8], p: &mut usize, f: LenFmt, l: usize) -> Option<Wire> { if l > b.len() { return None; } let mut v = vec![]; for _ in 0..l { let k = val(b, p)?; let x = val(b, p)?; v.push((k, x)); } Some(Wire::Map(f, v)) }
    let mut p = 0; let w = val(b, &mut p)?; if p == b.len() { Some(w) } else { None }
}

/// Mirror of a well-formed document, to aim ops.
fn mirror_step<'a>(w: &'a Wire, op: &Op) -> Option<&'a Wire> {
    match (w, op) {
        (Wire::Arr(_, l), Op::Idx(_, i)) | (Wire::Arr(_, l), Op::AIdx(_, i)) => l.get(*i),
        (Wire::Map(_, l), Op::Idx(_, i)) | (Wire::Map(_, l), Op::AIdx(_, i)) => l.get(*i).map(|p| &p.1),
        (Wire::Map(_, l), Op::Key(_, i)) => l.get(*i).map(|p| &p.0),
        (Wire::Map(_, l), Op::Prop(_, n)) | (Wire::Map(_, l), Op::IProp(_, n)) | (Wire::Map(_, l), Op::AProp(_, n)) => l.iter().find(|(k, _)| matches!(k, Wire::Str(_, s) if s == n)).map(|p| &p.1),
        _ => None,
    }
}

pub struct Hist { pub ops: Vec<Op>, pub obs: Vec<String> }

/// Generate and run a history of `n` ops adaptively.
pub fn gen_history(rng: &mut Rng, doc: &[u8], tree: Option<&Wire>, n: usize, pool: &[Vec<u8>]) -> Hist { gen_history_impl(rng, doc, tree, n, pool, false, &[]) }
thread_local! { pub static API_MODE: std::cell::Cell<bool> = const { std::cell::Cell::new(false) }; }

fn to_api(rng: &mut Rng, op: Op) -> Op {
    match op {
        Op::Idx(s, i) if rng.chance(60) => Op::AIdx(s, i), Op::Prop(s, n) if rng.chance(60) => Op::AProp(s, n),
        Op::Len(s) => if rng.chance(80) { Op::ALen(s) } else { Op::Len(s) }, Op::Str(s) => if rng.chance(80) { Op::AStr(s) } else { Op::Str(s) },
        Op::Key(s, i) if rng.chance(70) => Op::AKey(s, i), o => o }
}

fn gen_history_impl(rng: &mut Rng, doc: &[u8], tree: Option<&Wire>, n: usize, pool: &[Vec<u8>], stream: bool, prelude: &[Op]) -> Hist {
    let mut s = Session::new(doc);
    let mut ops: Vec<Op> = vec![]; let mut obs: Vec<String> = vec![];
    let mut mirror: Vec<Option<&Wire>> = vec![];
    let mut parent: Vec<Option<(usize, usize)>> = vec![];    // (scope answer, index) an answer was obtained from
    let mut last_container: Option<usize> = None;
    // in-order depth-first traversal of one container (what a typed Deserialize does), then the NEXT SIBLING of that container
    let mut dfs: Vec<(usize, usize, usize)> = vec![];     // (scope answer, next child, length)
    let mut dfs_root: Option<usize> = None;
    for step in 0..n {
        let containers: Vec<usize> = obs.iter().enumerate().filter(|(_, o)| o.starts_with("VAL ARR") || o.starts_with("VAL OBJ")).map(|(i, _)| i).collect();
        let vals: Vec<usize> = obs.iter().enumerate().filter(|(_, o)| o.starts_with("VAL")).map(|(i, _)| i).collect();
        let strs: Vec<usize> = obs.iter().enumerate().filter(|(_, o)| o.starts_with("VAL STR")).map(|(i, _)| i).collect();
        while let Some(&(_, nx, l)) = dfs.last() { if nx >= l { dfs.pop(); } else { break; } }
        if step >= prelude.len() && dfs.is_empty() && dfs_root.is_none() && !containers.is_empty() && rng.chance(7) {
            let k = if rng.chance(60) { containers[containers.len() - 1 - rng.below(containers.len().min(4) as u64) as usize] } else { *rng.pick(&containers) };
            let l: usize = obs[k].split_whitespace().nth(2).and_then(|x| x.parse().ok()).unwrap_or(0);
            if l >= 1 && l <= 10 { dfs.push((k, 0, l)); dfs_root = Some(k); }
        }
        let op = if step < prelude.len() { prelude[step].clone() }
        else if let Some(top) = dfs.last_mut() { let (k, i, _) = *top; top.1 += 1; Op::Idx(Sc::Ans(k), i) }
        else if let Some(rt) = dfs_root.take() { match parent[rt] { Some((p, i)) => Op::Idx(Sc::Ans(p), i + 1), None => Op::Root } }
        else if step == 0 || vals.is_empty() || rng.chance(6) { Op::Root }
        // revisit an OLD string handle (oldest ones preferred): its bytes must not depend on what was read since
        else if !strs.is_empty() && rng.chance(12) { let k = if rng.chance(50) { strs[rng.below(strs.len().min(4) as u64) as usize] } else { *rng.pick(&strs) }; if rng.chance(80) { Op::Str(Sc::Ans(k)) } else { Op::Len(Sc::Ans(k)) } }
        else {
            // sibling-after-half-descent pattern: ask the parent of the latest container for the next index
            let sib = last_container.and_then(|c| parent[c]);
            let sib = sib.filter(|(p, i)| obs[*p].split_whitespace().nth(2).and_then(|x| x.parse::<usize>().ok()).map_or(false, |l| i + 1 < l) || rng.chance(10));
            let (k, forced_idx) = if sib.is_some() && rng.chance(30) { let (p, i) = sib.unwrap(); (p, Some(i + 1)) }
                else if !containers.is_empty() && rng.chance(75) { (if rng.chance(50) { containers[containers.len() - 1 - rng.below(containers.len().min(3) as u64) as usize] } else { *rng.pick(&containers) }, None) }
                else if rng.chance(75) && !containers.is_empty() { (*rng.pick(&containers), None) } else { (*rng.pick(&vals), None) };
            let sc = if rng.chance(3) { Sc::Garbage } else { Sc::Ans(k) };
            let o = &obs[k];
            let inl: usize = o.split_whitespace().nth(2).and_then(|x| x.parse().ok()).unwrap_or(0);
            let idx = |rng: &mut Rng| -> usize { if let Some(i) = forced_idx { return i; }
                if rng.chance(8) { *rng.pick(&[inl, inl + 1, usize::MAX, 1 << 20]) } else if inl == 0 { 0 } else if rng.chance(30) { inl - 1 } else { rng.below(inl as u64) as usize } };
            let name = |rng: &mut Rng, m: Option<&Wire>| -> Vec<u8> {
                if let (Some(Wire::Map(_, l)), true) = (m, rng.chance(85)) { if !l.is_empty() { if let Wire::Str(_, s) = &rng.pick(l).0 { return s.clone(); } } }
                if !pool.is_empty() && rng.chance(70) { rng.pick(pool).clone() } else { b"missing".to_vec() } };
            let m = mirror[k];
            if o.starts_with("VAL OBJ") {
                match rng.below(100) { 0..=29 => Op::Prop(sc, name(rng, m)), 30..=39 => Op::IProp(sc, name(rng, m)), 40..=64 => Op::Idx(sc, idx(rng)), 65..=89 => Op::Key(sc, idx(rng)), 90..=96 => Op::Len(sc), _ => Op::Str(sc) }
            } else if o.starts_with("VAL ARR") {
                match rng.below(100) { 0..=74 => Op::Idx(sc, idx(rng)), 75..=80 => Op::Key(sc, idx(rng)), 81..=86 => Op::Prop(sc, name(rng, m)), 87..=96 => Op::Len(sc), _ => Op::Str(sc) }
            } else if o.starts_with("VAL STR") {
                match rng.below(100) { 0..=54 => Op::Str(sc), 55..=79 => Op::Len(sc), 80..=89 => Op::Idx(sc, idx(rng)), 90..=94 => Op::Key(sc, 0), _ => Op::Prop(sc, name(rng, m)) }
            } else {
                match rng.below(5) { 0 => Op::Idx(sc, rng.below(3) as usize), 1 => Op::Key(sc, 0), 2 => Op::Prop(sc, name(rng, m)), 3 => Op::Len(sc), _ => Op::Str(sc) }
            }
        };
        let op = if API_MODE.with(|m| m.get()) && step >= prelude.len() { to_api(rng, op) } else { op };
        if stream { println!("OP {}", op_txt(&op)); std::io::stdout().flush().unwrap(); }
        let o = s.exec(&op);
        if stream { println!("OB {}", o); std::io::stdout().flush().unwrap(); }
        // bookkeeping
        let (m, p) = match &op {
            Op::Root => (tree, None),
            Op::Idx(Sc::Ans(k), i) | Op::Key(Sc::Ans(k), i) | Op::AIdx(Sc::Ans(k), i) => (mirror[*k].and_then(|w| mirror_step(w, &op)), Some((*k, *i))),
            Op::Prop(Sc::Ans(k), _) | Op::IProp(Sc::Ans(k), _) | Op::AProp(Sc::Ans(k), _) => (mirror[*k].and_then(|w| mirror_step(w, &op)), None),
            _ => (None, None),
        };
        if o.starts_with("VAL ARR") || o.starts_with("VAL OBJ") { last_container = Some(obs.len()); }
        if dfs_root.is_some() && !dfs.is_empty() && dfs.len() < 4 && (o.starts_with("VAL ARR") || o.starts_with("VAL OBJ")) {
            let l: usize = o.split_whitespace().nth(2).and_then(|x| x.parse().ok()).unwrap_or(0);
            if l >= 1 && l <= 6 { dfs.push((obs.len(), 0, l)); }
        }
        mirror.push(m); parent.push(p);
        ops.push(op); obs.push(o);
    }
    Hist { ops, obs }
}

pub fn replay_history(doc: &[u8], ops: &[Op]) -> Vec<String> {
    let mut s = Session::new(doc);
    ops.iter().map(|op| s.exec(op)).collect()
}

pub fn collect_keys(w: &Wire, out: &mut Vec<Vec<u8>>) {
    match w {
        Wire::Arr(_, l) => for x in l { collect_keys(x, out) },
        Wire::Map(_, l) => for (k, v) in l { if let Wire::Str(_, s) = k { if out.len() < 64 { out.push(s.clone()); } } collect_keys(v, out) },
        _ => {}
    }
}

pub fn emit_case(out: &mut Out, id: usize, class: &str, doc: &[u8], ops: &[Op], obs: &[String]) {
    out.case(&format!("CASE {} {} {}", id, usize::BITS, class));
    out.case(&format!("DOC {}", hex(doc)));
    for op in ops { out.case(&op_txt(op)); }
    out.case("END");
    for o in obs { out.imp(&format!("{} {}", id, o)); }
}

fn stack_for(class: &str) -> usize { if class.starts_with("deep1m") { 1024 } else { 65536 } }

pub fn run_replay(f: &str, out: &mut Out) {
    let text = std::fs::read_to_string(f).unwrap();
    let mut pool = Pool::new();
    let mut id = 0usize; let mut class = String::new(); let mut doc: Vec<u8> = vec![]; let mut ops: Vec<Op> = vec![]; let mut n = 0u64; let mut cases = 0u64;
    for line in text.lines() {
        let t: Vec<&str> = line.split_whitespace().collect();
        match t.as_slice() {
            ["CASE", i, _w, c] => { id = i.parse().unwrap(); class = c.to_string(); ops.clear(); doc.clear(); }
            ["DOC", h] => doc = unhex(h),
            ["END"] => {
                let job = format!("REPLAY {} {} {}", stack_for(&class), hex(&doc), ops.iter().map(op_txt).collect::<Vec<_>>().join(";"));
                let (_, mut obs) = pool.run(&job);
                while obs.len() < ops.len() { obs.push("SKIPPED".into()); }
                n += obs.len() as u64; cases += 1;
                emit_case(out, id, &class, &doc, &ops, &obs);
            }
            _ => if let Some(op) = parse_op(line) { ops.push(op) },
        }
    }
    out.stat("evaluations", n.into()); out.stat("cases", cases.into());
}

pub struct Acc {
    pub evals: u64, pub id: usize,
    pub distinct: std::collections::BTreeSet<String>,
    pub opk: std::collections::BTreeMap<String, u64>, pub ansk: std::collections::BTreeMap<String, u64>,
    pub classes: std::collections::BTreeMap<String, u64>, pub sizes: std::collections::BTreeMap<&'static str, u64>,
    pub depths: std::collections::BTreeMap<usize, u64>,
    pub api: bool,
}
impl Acc {
    pub fn new() -> Acc { Acc { evals: 0, id: 0, distinct: Default::default(), opk: Default::default(), ansk: Default::default(), classes: Default::default(), sizes: Default::default(), depths: Default::default(), api: false } }
    /// Run one document in the child, record it.
    pub fn doc(&mut self, out: &mut Out, pool: &mut Pool, r: &mut Rng, class: &str, doc: &[u8], keys: &[Vec<u8>], wf: bool, nops: usize) { self.doc_with(out, pool, r, class, doc, keys, wf, nops, "-") }
    pub fn doc_with(&mut self, out: &mut Out, pool: &mut Pool, r: &mut Rng, class: &str, doc: &[u8], keys: &[Vec<u8>], wf: bool, nops: usize, prelude: &str) {
        let job = format!("JOB {} {} {} {} {} {} {}", r.next_u64(), nops, stack_for(class), hex(doc),
                          if keys.is_empty() { "-".to_string() } else { keys.iter().map(|k| hex(k)).collect::<Vec<_>>().join(",") }, if self.api { 2 } else if wf { 1 } else { 0 }, prelude);
        let (ops, obs) = pool.run(&job);
        *self.classes.entry(class.to_string()).or_insert(0) += 1;
        *self.sizes.entry(if doc.len() < 32 { "<32B" } else if doc.len() < 256 { "<256B" } else if doc.len() < 4096 { "<4KiB" } else { ">=4KiB" }).or_insert(0) += 1;
        for (op, o) in ops.iter().zip(&obs) {
            *self.opk.entry(op_txt(op).split_whitespace().next().unwrap().to_string()).or_insert(0) += 1;
            *self.ansk.entry(o.split_whitespace().take(if o.starts_with("VAL") { 2 } else { 1 }).collect::<Vec<_>>().join(" ")).or_insert(0) += 1;
        }
        let nontrivial = ops.iter().zip(&obs).any(|(op, o)| !matches!(op, Op::Root | Op::Len(_)) && o.starts_with("VAL") && !o.starts_with("VAL ERR") && !o.starts_with("VAL NULL"));
        if nontrivial { self.distinct.insert(format!("{}|{}", hex(&doc[..doc.len().min(64)]), ops.iter().map(op_txt).collect::<Vec<_>>().join(";"))); }
        self.evals += ops.len() as u64;
        emit_case(out, self.id, class, doc, &ops, &obs);
        self.id += 1;
    }
    pub fn finish(&self, out: &mut Out, rule: &str) {
        out.stat("cases", self.id.into());
        out.stat("evaluations", self.evals.into());
        out.stat("distinct_nontrivial", (self.distinct.len() as u64).into());
        out.stat("ops", serde_json::to_value(&self.opk).unwrap());
        out.stat("answers", serde_json::to_value(&self.ansk).unwrap());
        out.stat("classes", serde_json::to_value(&self.classes).unwrap());
        out.stat("doc_sizes", serde_json::to_value(&self.sizes).unwrap());
        out.stat("nesting_depths", serde_json::to_value(&self.depths).unwrap());
        out.stat("rule", rule.into());
    }
}

pub fn wf_doc(r: &mut Rng) -> Wire {
    let mut budget = *r.pick(&[4isize, 10, 25, 60, 150]); let d = r.range(1, 6) as usize;
    let dup = r.chance(15);
    let t = gen_tree(r, d, &mut budget, dup);
    if matches!(t, Wire::Arr(..) | Wire::Map(..)) || r.chance(10) { t } else { Wire::Arr(LenFmt::Fix, vec![t, gen_scalar(r), Wire::Arr(LenFmt::L16, vec![gen_scalar(r)])]) }
}

/// C01: well-formed documents.
pub fn run(a: &Args, out: &mut Out) {
    if let Some(f) = &a.replay { return run_replay(f, out); }
    let thorough = a.tier == "thorough";
    let mut rng = Rng::new(a.seed);
    let ndocs = a.n.unwrap_or(if thorough { 3000 } else { 300 }) as usize;
    // quick: every string size, arrays of 255/256, maps of 255/256 (the model is list-based, hence quadratic on huge containers)
    let quick_big: [usize; 15] = [0, 1, 2, 3, 4, 5, 6, 7, 8, 9, 10, 11, 12, 22, 23];
    let nbig = if thorough { 33 } else { quick_big.len() };
    let mut acc = Acc::new(); let mut pool = Pool::new();
    if let Some(c) = &a.corpus { if std::path::Path::new(c).exists() { run_replay(c, out); acc.id = 100000; } }
    for i in 0..ndocs + nbig {
        let mut r = rng.fork(i as u64);
        let big = i >= ndocs;
        let bigsel = if thorough { i.saturating_sub(ndocs) } else { quick_big[i.saturating_sub(ndocs) % quick_big.len()] };
        let tree = if big { gen_big(&mut r, bigsel) } else { wf_doc(&mut r) };
        let doc = tree.bytes();
        let mut keys = vec![]; collect_keys(&tree, &mut keys);
        *acc.depths.entry(tree.depth()).or_insert(0) += 1;
        let nops = if big { 30 } else { r.range(20, 60) as usize };
        acc.api = !big && i % 3 == 2;   // a third of the documents is read through the api::Value methods (chains of Value reads)
        // the list-based extracted model costs ~n^2 on a container of n children: beyond 1100 children the document is compared
        // with the eager spec only (class `huge`)
        let class = if !big { "wf" } else if gen_big_children(bigsel) > 1100 { "huge" } else { "big" };
        acc.doc(out, &mut pool, &mut r, class, &doc, &keys, true, nops);
        acc.api = false;
    }
    // mid-size containers of handle-carrying children, long histories that keep using early handles
    let nmid = if thorough { 30 } else { 9 };
    for i in 0..nmid {
        let mut r = rng.fork(700_000 + i as u64);
        // quick: sizes 1025/1040/1100 only (the list-based model costs ~|doc| per parsed element)
        // thorough: also 2049 (every shape twice); 4100 costs the list-based model ~4x as much again and adds nothing the
        // 20000..140000-element class `huge` (eager spec only) does not cover
        let sel = if thorough { (i % 4) + 5 * (i / 4 % 3) } else { (r.below(3) + 5 * r.below(3)) as usize };
        let tree = gen_mid(&mut r, sel);
        let doc = tree.bytes();
        let keys: Vec<Vec<u8>> = vec![b"x".to_vec(), b"y".to_vec(), b"k0".to_vec(), b"k1".to_vec(), b"k1024".to_vec(), b"k1299".to_vec()];
        *acc.depths.entry(tree.depth()).or_insert(0) += 1;
        // prelude: take handles of a few early children of both big containers, read them, then jump past
        // index 1024 in each, then read the early handles again; the adaptive history continues from there
        let (c0, c1) = match &tree { Wire::Map(..) => ("PROP 0 78", "PROP 0 79"), _ => ("IDX 0 0", "IDX 0 1") };
        let far = 1024 + r.below(10) as usize;
        let prelude = format!("ROOT;{};IDX 1 0;IDX 1 1;IDX 1 2;STR 2;STR 3;{};IDX 7 0;IDX 7 1;STR 8;IDX 1 {};STR 2;STR 3;IDX 2 0;IDX 3 0;IDX 7 {};STR 8;STR 9;IDX 8 0;LEN 2;KEY 1 1;KEY 1 {}", c0, c1, far, far + 1, far + 2);
        acc.doc_with(out, &mut pool, &mut r, "mid", &doc, &keys, true, 120, &prelude);
    }
    // huge flat containers (any pre-sizing threshold below ~10^5 elements is crossed): early handles are taken, the read
    // front jumps to the far end of BOTH containers, the early handles are used again. Compared with the eager spec only
    // (class `huge`: the list-based model is not run on these).
    let huge_sizes: &[usize] = if thorough { &[20000, 40000, 70000, 140000] } else { &[20000, 40000] };
    for (i, &n) in huge_sizes.iter().enumerate() {
        for shape in 0..(if thorough { 3 } else { 2 }) {
            let mut r = rng.fork(800_000 + (i * 3 + shape) as u64);
            let tree = gen_mid_n(&mut r, shape * 5, n);
            let doc = tree.bytes();
            let keys: Vec<Vec<u8>> = vec![b"x".to_vec(), b"y".to_vec(), b"k0".to_vec(), b"k1".to_vec()];
            let (c0, c1) = match &tree { Wire::Map(..) => ("PROP 0 78", "PROP 0 79"), _ => ("IDX 0 0", "IDX 0 1") };
            let prelude = format!("ROOT;{};IDX 1 0;IDX 1 1;IDX 1 2;STR 2;STR 3;{};IDX 7 0;IDX 7 1;STR 8;IDX 1 {};STR 2;STR 3;IDX 2 0;IDX 3 0;IDX 7 {};STR 8;STR 9;IDX 8 0;LEN 2;KEY 1 1;IDX 1 1;STR 24;IDX 7 0;STR 26", c0, c1, n - 1, n - 2);
            acc.doc_with(out, &mut pool, &mut r, "huge", &doc, &keys, true, 40, &prelude);
        }
    }
    flat_last(&mut acc, out, &mut pool, &mut rng, thorough);
    acc.finish(out, "random well-formed documents (depth<=6, fan-out from {0,1,2,3,4,5,15,16,17,31,32}, every int/float/str/array/map format incl. non-minimal headers, 15% with duplicate keys) plus documents with strings of 255/256, 2^14-3..2^14+2, 65535/65536/70000 bytes and arrays/maps of 255/256 (thorough: also 2^14-3..2^14+2) elements, plus containers of 1025..4100 strings/arrays/pairs read with 120-call histories that keep using early handles; plus flat arrays/maps of 20000..70000 elements incl. ones with a 32-bit length header that exactly fill the rest of the input; per document 20-60 read calls chosen adaptively among ALL handles obtained so far (sibling after half-descended child, revisits, by-name/by-interned-id/by-index/key-at-index/len/string bytes, out-of-range or wrong-kind scopes, 3% undecodable scope, root re-fetched); each document runs in a child process so an abort is an observation; non-trivial = some call reached a non-error value below the root; distinct = distinct (document prefix, op list)");
}

/// flat containers of one-byte elements whose header is the 32-bit length form, the container being the LAST thing in the
/// input (root, or last value of the enclosing array): every byte after the header is an element and nothing follows.
/// Compared with the eager spec only (class `huge`).
fn flat_last(acc: &mut Acc, out: &mut Out, pool: &mut Pool, rng: &mut Rng, thorough: bool) {
    let sizes: &[usize] = if thorough { &[65535, 65536, 70000, 140000] } else { &[65535, 65536, 70000] };
    for (i, &n) in sizes.iter().enumerate() {
        for shape in 0..3 {
            let mut r = rng.fork(900_000 + (i * 3 + shape) as u64);
            let inner = if shape == 2 {
                Wire::Map(LenFmt::L32, (0..n).map(|k| (Wire::Str(StrFmt::Fix, vec![b'a' + (k % 26) as u8]), Wire::Nil)).collect())
            } else {
                Wire::Arr(LenFmt::L32, (0..n).map(|k| Wire::Int(IntFmt::PFix, (k % 100) as i128)).collect())
            };
            let tree = if shape == 1 { Wire::Arr(LenFmt::Fix, vec![Wire::Nil, inner]) } else { inner };
            let doc = tree.bytes();
            let keys: Vec<Vec<u8>> = vec![b"a".to_vec(), b"z".to_vec()];
            let prelude = match shape {
                0 => format!("ROOT;LEN 0;IDX 0 0;IDX 0 {};IDX 0 {};LEN 0", n - 1, n),
                1 => format!("ROOT;IDX 0 1;LEN 1;IDX 1 0;IDX 1 {};IDX 1 {};IDX 0 0;LEN 1", n - 1, n),
                _ => format!("ROOT;LEN 0;KEY 0 0;KEY 0 {};IDX 0 {};PROP 0 61;LEN 0", n - 1, n - 1),
            };
            // provider-level calls only: the eager spec is the oracle (it has no api::Value calls)
            let api = acc.api; acc.api = false;
            acc.doc_with(out, pool, &mut r, "huge", &doc, &keys, true, 12, &prelude);
            acc.api = api;
        }
    }
}

/// C08: arbitrary / malformed input bytes.
pub fn run_c08(a: &Args, out: &mut Out) {
    if let Some(f) = &a.replay { return run_replay(f, out); }
    let thorough = a.tier == "thorough";
    let mut rng = Rng::new(a.seed);
    let n = a.n.unwrap_or(if thorough { 6000 } else { 500 }) as usize;
    let mut acc = Acc::new(); let mut pool = Pool::new();
    if let Some(c) = &a.corpus { if std::path::Path::new(c).exists() { run_replay(c, out); acc.id = 100000; } }
    let keypool: Vec<Vec<u8>> = vec![b"k0".to_vec(), b"k1".to_vec(), b"k2".to_vec(), b"a".to_vec(), b"k".to_vec(), b"".to_vec()];
    for i in 0..n {
        let mut r = rng.fork(i as u64);
        let base = wf_doc(&mut r); let other = wf_doc(&mut r);
        let mut keys = keypool.clone(); collect_keys(&base, &mut keys);
        let (class, doc): (&str, Vec<u8>) = match r.below(20) {
            0 => { // non-string key
                let w = Wire::Map(LenFmt::Fix, vec![(Wire::Str(StrFmt::Fix, b"k0".to_vec()), gen_scalar(&mut r)), (gen_int(&mut r), gen_scalar(&mut r)), (Wire::Str(StrFmt::Fix, b"k2".to_vec()), Wire::Nil)]);
                ("nonstring-key", Wire::Arr(LenFmt::Fix, vec![w, Wire::Nil]).bytes()) }
            1 => { // NaN floats, at the root or nested
                let nan = if r.chance(50) { Wire::F64(*r.pick(&[0x7ff8000000000000u64, 0xfff8000000000001, 0x7ff0000000000001, 0x7fffffffffffffff])) } else { Wire::F32(*r.pick(&[0x7fc00000u32, 0xffc00001, 0x7f800001])) };
                ("nan", if r.chance(30) { nan.bytes() } else { Wire::Arr(LenFmt::Fix, vec![Wire::Int(IntFmt::PFix, 1), nan.clone(), Wire::Map(LenFmt::Fix, vec![(Wire::Str(StrFmt::Fix, b"k0".to_vec()), nan)])]).bytes() }) }
            2 => { // string extent beyond the input
                let mut d = Wire::Arr(LenFmt::Fix, vec![Wire::Map(LenFmt::Fix, vec![(Wire::Str(StrFmt::S8, b"k0".to_vec()), Wire::Str(StrFmt::S8, b"abc".to_vec()))]), Wire::Nil]).bytes();
                let f = len_fields(&d); let strs: Vec<_> = f.iter().filter(|x| x.1 == 1).collect(); let (pos, _, _, rem) = **r.pick(&strs); d[pos] = (rem + 1 + r.below(100) as usize).min(255) as u8;
                ("str-extent", d) }
            3 => { let depth = *r.pick(&[1usize, 10, 100, 1000, 5000, 10000]); let mut d = vec![0x92]; d.extend(std::iter::repeat(0x91).take(depth)); d.push(0xc0); d.push(0xc0); ("deep", d) }
            4 => ("valid", base.bytes()),
            _ => { let (c, d) = mutate(&mut r, &base.bytes(), &other.bytes()); (c, d) }
        };
        let nops = r.range(10, 40) as usize;
        acc.doc(out, &mut pool, &mut r, class, &doc, &keys, false, nops);
    }
    // classes that make the unrepaired implementation abort the process (recorded findings F3, F11); a handful each
    for (k, d) in [("hugelen", vec![0xddu8, 0xff, 0xff, 0xff, 0xff]), ("hugelen", vec![0xdf, 0xff, 0xff, 0xff, 0xff]), ("hugelen", vec![0x92, 0xdd, 0x7f, 0xff, 0xff, 0xff, 0xc0])] {
        let mut r = rng.fork(900_000 + acc.id as u64);
        acc.doc(out, &mut pool, &mut r, k, &d, &keypool, false, 4);
    }
    { // nesting 6000 on a 1 MiB stack (the default wasm stack): finish_processing recurses once per level
        let mut d = vec![0x92u8]; d.extend(std::iter::repeat(0x91).take(6000)); d.push(0xc0); d.push(0xc0);
        let job = format!("REPLAY {} {} {}", 1024, hex(&d), "ROOT;IDX 0 1");
        let (ops, mut obs) = pool.run(&job);
        while obs.len() < ops.len() { obs.push("SKIPPED".into()); }
        acc.evals += ops.len() as u64; *acc.classes.entry("deep1m".into()).or_insert(0) += 1;
        emit_case(out, acc.id, "deep1m", &d, &ops, &obs); acc.id += 1;
    }
    acc.finish(out, "malformed inputs: every class of {truncation, bit flip, byte overwrite, length-field tamper (0, true+-1, remaining, remaining+1, 65535, 2^20), splice of two documents, unsupported marker (0xc1, bin, ext, fixext), trailing bytes, non-string key, NaN float (f32/f64, root/nested), string extent beyond the input, nesting 1..10^4, short random byte strings biased to container markers} of random valid documents, 5% valid; per input 10-40 adaptive read calls as in C01; three huge-declared-length inputs and one 6000-deep input on a 1 MiB stack exercise the recorded findings; each input runs in a child process with an 8 GB address-space limit so aborts are observations; non-trivial = some call reached a non-error value below the root");
}


/// C11: lengths below, at and above the inline limit through the api::Value accessors.
pub fn run_c11(a: &Args, out: &mut Out) {
    if let Some(f) = &a.replay { return run_replay(f, out); }
    let thorough = a.tier == "thorough";
    let mut rng = Rng::new(a.seed ^ 0x1111);
    let mut acc = Acc::new(); let mut pool = Pool::new();
    let mut sizes: Vec<usize> = (0..=40).collect();
    sizes.extend([255usize, 256, 65535, 65536, 70000]);
    for d in 0..6 { sizes.push((1 << 14) - 3 + d); }
    if thorough { sizes.extend([257usize, 600, 1024, 1100]); }
    for (i, &n) in sizes.iter().enumerate() {
        let mut r = rng.fork(i as u64);
        // every access path: root, nested, by name, by index, key-at-index; strings at all sizes,
        // arrays/maps at the small sizes and 255/256 (quick) or all sizes (thorough: the list-based model is quadratic)
        let s: Vec<u8> = (0..n).map(|k| b'a' + (k % 26) as u8).collect();
        // the list-based extracted model costs ~n^2 per container: keep containers the model has to follow
        // at or just past the inline-length limit; far larger ones are read at W=32 against the eager decode (class huge)
        let big_containers = n <= 256 || (thorough && n <= 1100);
        let key: Vec<u8> = if n >= 1 && n <= 300 { s.clone() } else { b"k".to_vec() };
        let mut entries = vec![(Wire::Str(str_fmt(&mut r, key.len(), false), key.clone()), { let m = r.chance(70); Wire::Str(str_fmt(&mut r, n, m), s.clone()) })];
        if big_containers {
            let arr: Vec<Wire> = (0..n).map(|k| Wire::Int(IntFmt::PFix, (k % 100) as i128)).collect();
            // tight entries (empty key, one-byte keys, one-byte values); in the map-rooted form this object is the last thing in the input
            let tight = i % 2 == 1;
            let map: Vec<(Wire, Wire)> = (0..n).map(|k| (Wire::Str(StrFmt::Fix, if tight && k == 0 { vec![] } else if tight && k < 27 { vec![b'A' + (k as u8 - 1)] } else { format!("k{}", k).into_bytes() }), Wire::Nil)).collect();
            entries.push((Wire::Str(StrFmt::Fix, b"arr".to_vec()), { let m = r.chance(70); Wire::Arr(len_fmt(&mut r, n, m), arr) }));
            entries.push((Wire::Str(StrFmt::Fix, b"map".to_vec()), { let m = r.chance(70); Wire::Map(len_fmt(&mut r, n, m), map) }));
        }
        let tree = if r.chance(50) { Wire::Map(LenFmt::Fix, entries) } else { Wire::Arr(LenFmt::Fix, vec![Wire::Map(LenFmt::Fix, entries), Wire::Str(str_fmt(&mut r, n, true), s.clone())]) };
        let doc = tree.bytes();
        let keys: Vec<Vec<u8>> = vec![key, b"arr".to_vec(), b"map".to_vec(), b"k0".to_vec(), vec![], b"A".to_vec()];
        *acc.depths.entry(tree.depth()).or_insert(0) += 1;
        let job_seed = r.next_u64();
        let job = format!("JOB {} {} {} {} {} {} -", job_seed, 40, 65536, hex(&doc), keys.iter().map(|k| hex(k)).collect::<Vec<_>>().join(","), 2);
        let (ops, obs) = pool.run(&job);
        for (op, o) in ops.iter().zip(&obs) {
            *acc.opk.entry(op_txt(op).split_whitespace().next().unwrap().to_string()).or_insert(0) += 1;
            *acc.ansk.entry(o.split_whitespace().take(if o.starts_with("VAL") { 2 } else { 1 }).collect::<Vec<_>>().join(" ")).or_insert(0) += 1;
        }
        if obs.iter().any(|o| o.starts_with("ALEN ") && o != "ALEN NONE") { acc.distinct.insert(format!("{}", n)); }
        *acc.classes.entry(if n < (1 << 14) - 1 { "below-limit" } else { "at-or-above-limit" }.to_string()).or_insert(0) += 1;
        acc.evals += ops.len() as u64;
        emit_case(out, acc.id, "c11", &doc, &ops, &obs); acc.id += 1;
    }
    flat_last(&mut acc, out, &mut pool, &mut rng, thorough);
    acc.finish(out, "documents holding a string (and, at the smaller sizes, an array and a map) of n bytes/elements/entries for n in {0..40, 255, 256, 2^14-3..2^14+2, 65535, 65536, 70000}, at the root or nested, reached by name / by index / key-at-index; 40 adaptive calls per document, most of them through the api::Value accessors (array_len, obj_len, as_string, get_obj_key_at_index, get_at_index, get_obj_prop) and the rest through the raw provider calls (get_val_len, read bytes); plus flat arrays/maps of 65535, 65536, 70000 one-byte elements with a 32-bit length header that are the LAST thing in the input (root or last value), compared with the eager spec; non-trivial = an accessor returned a length; distinct = distinct sizes. On the 64-bit host the inline limit is 2^46-1, so the sentinel branch of the accessors is exercised by the model at W=32 and by the Miri/i686 run only");
}
