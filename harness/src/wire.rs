//! MessagePack documents as trees with explicit header formats (mirrors coq/theories/Msgpack/Wire.v),
//! their encoder, and generators (well-formed incl. non-minimal headers; malformed variants).
use crate::prng::Rng;

#[derive(Clone, Debug)]
pub enum IntFmt { PFix, NFix, U8, U16, U32, U64, I8, I16, I32, I64 }
#[derive(Clone, Debug, Copy)]
pub enum StrFmt { Fix, S8, S16, S32 }
#[derive(Clone, Debug, Copy)]
pub enum LenFmt { Fix, L16, L32 }

#[derive(Clone, Debug)]
pub enum Wire {
    Nil,
    Bool(bool),
    Int(IntFmt, i128),
    F32(u32),
    F64(u64),
    Str(StrFmt, Vec<u8>),
    Arr(LenFmt, Vec<Wire>),
    Map(LenFmt, Vec<(Wire, Wire)>),
}

impl Wire {
    pub fn enc(&self, o: &mut Vec<u8>) {
        match self {
            Wire::Nil => o.push(0xc0),
            Wire::Bool(b) => o.push(if *b { 0xc3 } else { 0xc2 }),
            Wire::Int(f, z) => match f {
                IntFmt::PFix => o.push(*z as u8),
                IntFmt::NFix => o.push((*z as i8) as u8),
                IntFmt::U8 => { o.push(0xcc); o.push(*z as u8) }
                IntFmt::U16 => { o.push(0xcd); o.extend((*z as u16).to_be_bytes()) }
                IntFmt::U32 => { o.push(0xce); o.extend((*z as u32).to_be_bytes()) }
                IntFmt::U64 => { o.push(0xcf); o.extend((*z as u64).to_be_bytes()) }
                IntFmt::I8 => { o.push(0xd0); o.push((*z as i8) as u8) }
                IntFmt::I16 => { o.push(0xd1); o.extend((*z as i16).to_be_bytes()) }
                IntFmt::I32 => { o.push(0xd2); o.extend((*z as i32).to_be_bytes()) }
                IntFmt::I64 => { o.push(0xd3); o.extend((*z as i64).to_be_bytes()) }
            },
            Wire::F32(b) => { o.push(0xca); o.extend(b.to_be_bytes()) }
            Wire::F64(b) => { o.push(0xcb); o.extend(b.to_be_bytes()) }
            Wire::Str(f, s) => {
                match f {
                    StrFmt::Fix => o.push(0xa0 + s.len() as u8),
                    StrFmt::S8 => { o.push(0xd9); o.push(s.len() as u8) }
                    StrFmt::S16 => { o.push(0xda); o.extend((s.len() as u16).to_be_bytes()) }
                    StrFmt::S32 => { o.push(0xdb); o.extend((s.len() as u32).to_be_bytes()) }
                }
                o.extend(s);
            }
            Wire::Arr(f, l) => {
                match f {
                    LenFmt::Fix => o.push(0x90 + l.len() as u8),
                    LenFmt::L16 => { o.push(0xdc); o.extend((l.len() as u16).to_be_bytes()) }
                    LenFmt::L32 => { o.push(0xdd); o.extend((l.len() as u32).to_be_bytes()) }
                }
                for x in l { x.enc(o); }
            }
            Wire::Map(f, l) => {
                match f {
                    LenFmt::Fix => o.push(0x80 + l.len() as u8),
                    LenFmt::L16 => { o.push(0xde); o.extend((l.len() as u16).to_be_bytes()) }
                    LenFmt::L32 => { o.push(0xdf); o.extend((l.len() as u32).to_be_bytes()) }
                }
                for (k, v) in l { k.enc(o); v.enc(o); }
            }
        }
    }
    pub fn bytes(&self) -> Vec<u8> { let mut o = vec![]; self.enc(&mut o); o }
    pub fn depth(&self) -> usize {
        match self {
            Wire::Arr(_, l) => 1 + l.iter().map(|x| x.depth()).max().unwrap_or(0),
            Wire::Map(_, l) => 1 + l.iter().map(|(_, x)| x.depth()).max().unwrap_or(0),
            _ => 0,
        }
    }
    pub fn nodes(&self) -> usize {
        match self {
            Wire::Arr(_, l) => 1 + l.iter().map(|x| x.nodes()).sum::<usize>(),
            Wire::Map(_, l) => 1 + l.iter().map(|(_, x)| 1 + x.nodes()).sum::<usize>(),
            _ => 1,
        }
    }
}

pub fn str_fmt(rng: &mut Rng, len: usize, minimal: bool) -> StrFmt {
    let mut ok = vec![];
    if len < 32 { ok.push(StrFmt::Fix) }
    if len < 256 { ok.push(StrFmt::S8) }
    if len < 65536 { ok.push(StrFmt::S16) }
    ok.push(StrFmt::S32);
    if minimal || rng.chance(70) { ok[0] } else { *rng.pick(&ok) }
}
pub fn len_fmt(rng: &mut Rng, len: usize, minimal: bool) -> LenFmt {
    let mut ok = vec![];
    if len < 16 { ok.push(LenFmt::Fix) }
    if len < 65536 { ok.push(LenFmt::L16) }
    ok.push(LenFmt::L32);
    if minimal || rng.chance(70) { ok[0] } else { *rng.pick(&ok) }
}

pub fn gen_int(rng: &mut Rng) -> Wire {
    // pick a format first, then a value that fits it (non-minimal encodings are the norm here)
    let f = rng.below(10);
    let edge = |rng: &mut Rng, lo: i128, hi: i128| -> i128 {
        match rng.below(6) { 0 => lo, 1 => hi, 2 => lo + 1, 3 => hi - 1, 4 => if lo <= 0 && hi >= 0 { rng.below(10) as i128 - if lo < 0 { 5 } else { 0 } } else { lo },
            _ => { let span = (hi - lo) as u128 + 1; lo + ((rng.next_u64() as u128 | ((rng.next_u64() as u128) << 64)) % span) as i128 } }
    };
    match f {
        0 => Wire::Int(IntFmt::PFix, edge(rng, 0, 127)),
        1 => Wire::Int(IntFmt::NFix, edge(rng, -32, -1)),
        2 => Wire::Int(IntFmt::U8, edge(rng, 0, 255)),
        3 => Wire::Int(IntFmt::U16, edge(rng, 0, 65535)),
        4 => Wire::Int(IntFmt::U32, edge(rng, 0, u32::MAX as i128)),
        5 => { let v = edge(rng, 0, u64::MAX as i128); Wire::Int(IntFmt::U64, if rng.chance(30) { (1i128 << 53) + rng.below(5) as i128 - 2 } else { v }) }
        6 => Wire::Int(IntFmt::I8, edge(rng, -128, 127)),
        7 => Wire::Int(IntFmt::I16, edge(rng, -32768, 32767)),
        8 => Wire::Int(IntFmt::I32, edge(rng, i32::MIN as i128, i32::MAX as i128)),
        _ => { let v = edge(rng, i64::MIN as i128, i64::MAX as i128); Wire::Int(IntFmt::I64, if rng.chance(30) { -(1i128 << 53) - rng.below(5) as i128 + 2 } else { v }) }
    }
}

pub fn gen_scalar(rng: &mut Rng) -> Wire {
    match rng.below(12) {
        0 => Wire::Nil,
        1 => Wire::Bool(rng.chance(50)),
        2..=5 => gen_int(rng),
        6 => { let b = rng.next_u64() as u32; if f32::from_bits(b).is_nan() { Wire::F32(0x3fc00000) } else { Wire::F32(b) } }
        7 => { let b = rng.next_u64(); if f64::from_bits(b).is_nan() { Wire::F64(0x3ff8000000000000) } else { Wire::F64(b) } }
        8 => Wire::F64(*rng.pick(&[0u64, 1 << 63, 0x7ff0000000000000, 0xfff0000000000000, 1, 0x3ff0000000000000, 0x7fefffffffffffff])),
        _ => gen_str(rng, false),
    }
}

pub fn gen_str(rng: &mut Rng, minimal: bool) -> Wire {
    let len = match rng.below(20) { 0 => 0, 1 => 31, 2 => 32, 3 => 255, 4 => 256, 5 => rng.below(600) as usize, _ => rng.below(12) as usize };
    let s: Vec<u8> = (0..len).map(|_| b'a' + rng.below(26) as u8).collect();
    Wire::Str(str_fmt(rng, len, minimal), s)
}

pub fn gen_key(rng: &mut Rng, i: usize, dup: bool) -> Wire {
    let mut s = if dup && rng.chance(30) { format!("k{}", rng.below(3)) } else { format!("k{}", i) }.into_bytes();
    if rng.chance(10) { s = vec![b'x'; [0usize, 31, 32, 40][rng.below(4) as usize]]; s.extend(format!("{}", i).bytes()); }
    // the shortest legal keys: the empty string (at most once per map) and single bytes -- "tight" entries of 2-3 bytes
    else if i == 0 && rng.chance(15) { s = vec![]; }
    else if i >= 1 && i < 27 && rng.chance(15) { s = vec![b'A' + (i as u8 - 1)]; }
    let l = s.len();
    Wire::Str(str_fmt(rng, l, false), s)
}

/// A random well-formed document. `budget` bounds the total number of nodes.
pub fn gen_tree(rng: &mut Rng, depth: usize, budget: &mut isize, dup_keys: bool) -> Wire {
    *budget -= 1;
    if depth == 0 || *budget <= 0 || rng.chance(35) { return gen_scalar(rng); }
    let fan = *rng.pick(&[0usize, 1, 1, 2, 2, 3, 3, 4, 5, 15, 16, 17, 31, 32]);
    let fan = fan.min((*budget).max(0) as usize);
    if rng.chance(50) {
        let l: Vec<Wire> = (0..fan).map(|_| gen_tree(rng, depth - 1, budget, dup_keys)).collect();
        Wire::Arr(len_fmt(rng, fan, false), l)
    } else {
        let l: Vec<(Wire, Wire)> = (0..fan).map(|i| (gen_key(rng, i, dup_keys), gen_tree(rng, depth - 1, budget, dup_keys))).collect();
        Wire::Map(len_fmt(rng, fan, false), l)
    }
}

/// Documents whose sizes cross the header-width and inline-length limits.
/// the number of children of the container `gen_big(_, which)` builds (0 for the string shapes)
pub fn gen_big_children(which: usize) -> usize {
    let sizes = [255usize, 256, (1 << 14) - 3, (1 << 14) - 2, (1 << 14) - 1, 1 << 14, (1 << 14) + 1, (1 << 14) + 2, 65535, 65536, 70000];
    if (which / sizes.len()) % 3 == 0 { 0 } else { sizes[which % sizes.len()].min((1 << 14) + 2) }
}

pub fn gen_big(rng: &mut Rng, which: usize) -> Wire {
    let sizes = [255usize, 256, (1 << 14) - 3, (1 << 14) - 2, (1 << 14) - 1, 1 << 14, (1 << 14) + 1, (1 << 14) + 2, 65535, 65536, 70000];
    let n = sizes[which % sizes.len()];
    match (which / sizes.len()) % 3 {
        0 => { let s: Vec<u8> = (0..n).map(|i| b'a' + (i % 26) as u8).collect(); let w = Wire::Str(str_fmt(rng, n, true), s);
               Wire::Arr(LenFmt::Fix, vec![Wire::Int(IntFmt::PFix, 1), w, Wire::Int(IntFmt::PFix, 2)]) }
        1 => { let n = n.min((1 << 14) + 2); let l: Vec<Wire> = (0..n).map(|i| Wire::Int(IntFmt::PFix, (i % 100) as i128)).collect();
               Wire::Map(LenFmt::Fix, vec![(Wire::Str(StrFmt::Fix, b"a".to_vec()), Wire::Arr(len_fmt(rng, n, true), l)), (Wire::Str(StrFmt::Fix, b"z".to_vec()), Wire::Bool(true))]) }
        _ => { let n = n.min((1 << 14) + 2); let l: Vec<(Wire, Wire)> = (0..n).map(|i| { let k = format!("k{}", i).into_bytes(); (Wire::Str(StrFmt::Fix, k), Wire::Int(IntFmt::PFix, (i % 50) as i128)) }).collect();
               Wire::Arr(LenFmt::Fix, vec![Wire::Map(len_fmt(rng, n, true), l), Wire::Nil]) }
    }
}

/// Walk a VALID document and list its length fields: (offset of the field, width in bytes, value,
/// bytes remaining after the field). Width 0 = the length lives in the marker byte itself.
pub fn len_fields(b: &[u8]) -> Vec<(usize, usize, usize, usize)> {
    fn walk(b: &[u8], p: &mut usize, out: &mut Vec<(usize, usize, usize, usize)>) -> Option<()> {
        let m = *b.get(*p)?; let at = *p; *p += 1;
        let be = |b: &[u8], p: &mut usize, k: usize| -> Option<usize> { let mut v = 0usize; for _ in 0..k { v = (v << 8) | *b.get(*p)? as usize; *p += 1; } Some(v) };
        let field = |b: &[u8], p: &mut usize, k: usize, out: &mut Vec<(usize, usize, usize, usize)>| -> Option<usize> { let pos = *p; let v = be(b, p, k)?; out.push((pos, k, v, b.len() - *p)); Some(v) };
        match m {
            0x80..=0x8f => { out.push((at, 0, (m - 0x80) as usize, b.len() - *p)); for _ in 0..2 * (m - 0x80) as usize { walk(b, p, out)?; } }
            0x90..=0x9f => { out.push((at, 0, (m - 0x90) as usize, b.len() - *p)); for _ in 0..(m - 0x90) as usize { walk(b, p, out)?; } }
            0xa0..=0xbf => { out.push((at, 0, (m - 0xa0) as usize, b.len() - *p)); *p += (m - 0xa0) as usize; }
            0xca | 0xce | 0xd2 => *p += 4, 0xcb | 0xcf | 0xd3 => *p += 8, 0xcc | 0xd0 => *p += 1, 0xcd | 0xd1 => *p += 2,
            0xd9 => { let l = field(b, p, 1, out)?; *p += l } 0xda => { let l = field(b, p, 2, out)?; *p += l } 0xdb => { let l = field(b, p, 4, out)?; *p += l }
            0xdc => { let l = field(b, p, 2, out)?; for _ in 0..l { walk(b, p, out)?; } } 0xdd => { let l = field(b, p, 4, out)?; for _ in 0..l { walk(b, p, out)?; } }
            0xde => { let l = field(b, p, 2, out)?; for _ in 0..2 * l { walk(b, p, out)?; } } 0xdf => { let l = field(b, p, 4, out)?; for _ in 0..2 * l { walk(b, p, out)?; } }
            _ => {}
        }
        Some(())
    }
    let mut out = vec![]; let mut p = 0; walk(b, &mut p, &mut out); out
}

/// One malformed variant of a valid document. Returns (class, bytes).
pub fn mutate(rng: &mut Rng, valid: &[u8], other: &[u8]) -> (&'static str, Vec<u8>) {
    let mut b = valid.to_vec();
    match rng.below(9) {
        0 => { let k = rng.below(b.len() as u64) as usize; b.truncate(k); ("truncated", b) }
        1 => { if b.is_empty() { return ("truncated", b); } let k = rng.below(b.len() as u64) as usize; b[k] ^= 1 << rng.below(8); ("bitflip", b) }
        2 => { if b.is_empty() { return ("truncated", b); } let k = rng.below(b.len() as u64) as usize; b[k] = rng.next_u64() as u8; ("byteset", b) }
        3 | 4 => { // tamper a length field
            let f = len_fields(&b); if f.is_empty() { b.push(0xc1); return ("marker", b); }
            let (pos, w, v, rem) = *rng.pick(&f);
            if w == 0 { let base = b[pos] & if b[pos] >= 0xa0 { 0xe0 } else { 0xf0 }; let max = if b[pos] >= 0xa0 { 31 } else { 15 };
                let nv = *rng.pick(&[0usize, v.saturating_sub(1), v + 1, max, rem.min(max), (rem + 1).min(max)]); b[pos] = base | (nv.min(max) as u8); }
            else { let maxw = if w >= 8 { usize::MAX } else { (1usize << (8 * w)) - 1 };
                // lengths that would pre-allocate gigabytes are exercised by the `hugelen` class only
                let nv = *rng.pick(&[0usize, v.saturating_sub(1), v + 1, rem, rem + 1, 65535, 1 << 20]); let nv = nv.min(maxw);
                for i in 0..w { b[pos + i] = (nv >> (8 * (w - 1 - i))) as u8; } }
            ("lentamper", b) }
        5 => { let k = rng.below(b.len() as u64 + 1) as usize; let mut o = b[..k].to_vec(); let j = rng.below(other.len() as u64 + 1) as usize; o.extend(&other[j..]); ("splice", o) }
        6 => { let k = rng.below(b.len() as u64 + 1) as usize; let m = *rng.pick(&[0xc1u8, 0xc4, 0xc5, 0xc6, 0xc7, 0xc8, 0xc9, 0xd4, 0xd5, 0xd6, 0xd7, 0xd8]); if k < b.len() { b[k] = m } else { b.push(m) } ("marker", b) }
        7 => { b.extend(other); ("trailing", b) }
        _ => { let n = rng.below(40) as usize; ("random", (0..n).map(|_| { let x = rng.next_u64(); if x % 3 == 0 { [0x92u8, 0x81, 0xa1, 0xd9, 0xdc, 0xde, 0xc0, 0x01, 0xcb][(x >> 8) as usize % 9] } else { (x >> 16) as u8 } }).collect()) }
    }
}

/// Mid-size containers of handle-carrying children (strings / small arrays): reading past the first
/// thousand children while earlier handles are still in use exercises the stability of element addresses.
pub fn gen_mid(rng: &mut Rng, which: usize) -> Wire { gen_mid_n(rng, which, [1025usize, 1040, 1100, 2049, 4100][which % 5]) }

/// Two large flat containers of handle-carrying children (strings / one-element arrays / pairs), `n` each.
pub fn gen_mid_n(rng: &mut Rng, which: usize, n: usize) -> Wire {
    let strs = |tag: &str, n: usize| -> Vec<Wire> { (0..n).map(|i| Wire::Str(StrFmt::Fix, format!("{}{}", tag, i).into_bytes())).collect() };
    match (which / 5) % 3 {
        0 => Wire::Arr(LenFmt::Fix, vec![Wire::Arr(len_fmt(rng, n, true), strs("a", n)), Wire::Arr(len_fmt(rng, n, true), strs("b", n))]),
        1 => { let l: Vec<(Wire, Wire)> = (0..n).map(|i| (Wire::Str(StrFmt::Fix, format!("k{}", i).into_bytes()), Wire::Arr(LenFmt::Fix, vec![Wire::Int(IntFmt::PFix, (i % 100) as i128)]))).collect();
               Wire::Arr(LenFmt::Fix, vec![Wire::Map(len_fmt(rng, n, true), l), Wire::Arr(len_fmt(rng, n, true), strs("s", n))]) }
        _ => { let l: Vec<Wire> = (0..n).map(|i| Wire::Arr(LenFmt::Fix, vec![Wire::Str(StrFmt::Fix, format!("v{}", i).into_bytes())])).collect();
               Wire::Map(LenFmt::Fix, vec![(Wire::Str(StrFmt::Fix, b"x".to_vec()), Wire::Arr(len_fmt(rng, n, true), l.clone())), (Wire::Str(StrFmt::Fix, b"y".to_vec()), Wire::Arr(len_fmt(rng, n, true), l))]) }
    }
}
