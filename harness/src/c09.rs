//! C09: the real Serialize / Deserialize trait impls of api/src/{write,read}.rs on a family of
//! concrete Rust types, driven through a dynamic value layer (DV) so that one generator serves all.
use crate::{prng::*, Args, Out};
use shopify_function_wasm_api::{Context, Deserialize, Serialize};
use std::collections::HashMap;

#[derive(Clone, Debug, PartialEq)]
pub enum DV { Unit, Bool(bool), I32(i32), F64(u64), Str(String), Non, Som(Box<DV>), Vec(Vec<DV>), Map(Vec<(String, DV)>), Tup(Vec<DV>), Int(i128) }

pub fn dv_txt(v: &DV, sort_maps: bool) -> String {
    match v {
        DV::Unit => "u".into(), DV::Bool(b) => format!("b{}", *b as u8), DV::I32(z) => format!("i{}", z), DV::F64(b) => format!("f{:x}", b),
        DV::Str(s) => format!("s{}", hex(s.as_bytes())), DV::Non => "n".into(), DV::Som(x) => format!("S({})", dv_txt(x, sort_maps)),
        DV::Vec(l) => format!("V[{}]", l.iter().map(|x| dv_txt(x, sort_maps)).collect::<Vec<_>>().join(",")),
        DV::Tup(l) => format!("T[{}]", l.iter().map(|x| dv_txt(x, sort_maps)).collect::<Vec<_>>().join(",")),
        DV::Map(l) => { let mut e: Vec<String> = l.iter().map(|(k, x)| format!("{}:{}", hex(k.as_bytes()), dv_txt(x, sort_maps))).collect(); if sort_maps { e.sort(); } format!("M{{{}}}", e.join(",")) }
        DV::Int(z) => if *z < 0 { format!("I-{:x}", -z) } else { format!("I{:x}", z) },
    }
}

pub trait Dyn: Sized {
    fn ty() -> String;
    fn from_dv(v: &DV) -> Option<Self>;
    fn to_dv(&self) -> DV;
}
impl Dyn for () { fn ty() -> String { "unit".into() } fn from_dv(v: &DV) -> Option<Self> { matches!(v, DV::Unit).then_some(()) } fn to_dv(&self) -> DV { DV::Unit } }
impl Dyn for bool { fn ty() -> String { "bool".into() } fn from_dv(v: &DV) -> Option<Self> { if let DV::Bool(b) = v { Some(*b) } else { None } } fn to_dv(&self) -> DV { DV::Bool(*self) } }
impl Dyn for i32 { fn ty() -> String { "i32".into() } fn from_dv(v: &DV) -> Option<Self> { if let DV::I32(b) = v { Some(*b) } else { None } } fn to_dv(&self) -> DV { DV::I32(*self) } }
impl Dyn for f64 { fn ty() -> String { "f64".into() } fn from_dv(v: &DV) -> Option<Self> { if let DV::F64(b) = v { Some(f64::from_bits(*b)) } else { None } } fn to_dv(&self) -> DV { DV::F64(self.to_bits()) } }
impl Dyn for String { fn ty() -> String { "str".into() } fn from_dv(v: &DV) -> Option<Self> { if let DV::Str(b) = v { Some(b.clone()) } else { None } } fn to_dv(&self) -> DV { DV::Str(self.clone()) } }
macro_rules! dyn_int { ($t:ty, $n:expr) => { impl Dyn for $t { fn ty() -> String { format!("int({})", $n) } fn from_dv(v: &DV) -> Option<Self> { if let DV::Int(z) = v { <$t>::try_from(*z).ok() } else { None } } fn to_dv(&self) -> DV { DV::Int(*self as i128) } } } }
dyn_int!(u8, "u8"); dyn_int!(i8, "i8"); dyn_int!(u16, "u16"); dyn_int!(i16, "i16"); dyn_int!(u32, "u32"); dyn_int!(i64, "i64"); dyn_int!(u64, "u64"); dyn_int!(usize, "usize"); dyn_int!(isize, "isize");
impl<T: Dyn> Dyn for Option<T> { fn ty() -> String { format!("opt({})", T::ty()) }
    fn from_dv(v: &DV) -> Option<Self> { match v { DV::Non => Some(None), DV::Som(x) => T::from_dv(x).map(Some), _ => None } }
    fn to_dv(&self) -> DV { match self { None => DV::Non, Some(x) => DV::Som(Box::new(x.to_dv())) } } }
impl<T: Dyn> Dyn for Vec<T> { fn ty() -> String { format!("vec({})", T::ty()) }
    fn from_dv(v: &DV) -> Option<Self> { if let DV::Vec(l) = v { l.iter().map(T::from_dv).collect() } else { None } }
    fn to_dv(&self) -> DV { DV::Vec(self.iter().map(|x| x.to_dv()).collect()) } }
impl<T: Dyn> Dyn for HashMap<String, T> { fn ty() -> String { format!("map({})", T::ty()) }
    fn from_dv(v: &DV) -> Option<Self> { if let DV::Map(l) = v { l.iter().map(|(k, x)| T::from_dv(x).map(|y| (k.clone(), y))).collect() } else { None } }
    fn to_dv(&self) -> DV { DV::Map(self.iter().map(|(k, x)| (k.clone(), x.to_dv())).collect()) } }   // ITERATION order = the order Serialize uses
impl<A: Dyn, B: Dyn> Dyn for (A, B) { fn ty() -> String { format!("tuple({},{})", A::ty(), B::ty()) }
    fn from_dv(v: &DV) -> Option<Self> { if let DV::Tup(l) = v { if l.len() == 2 { return Some((A::from_dv(&l[0])?, B::from_dv(&l[1])?)); } } None }
    fn to_dv(&self) -> DV { DV::Tup(vec![self.0.to_dv(), self.1.to_dv()]) } }
impl<A: Dyn, B: Dyn, C: Dyn> Dyn for (A, B, C) { fn ty() -> String { format!("tuple({},{},{})", A::ty(), B::ty(), C::ty()) }
    fn from_dv(v: &DV) -> Option<Self> { if let DV::Tup(l) = v { if l.len() == 3 { return Some((A::from_dv(&l[0])?, B::from_dv(&l[1])?, C::from_dv(&l[2])?)); } } None }
    fn to_dv(&self) -> DV { DV::Tup(vec![self.0.to_dv(), self.1.to_dv(), self.2.to_dv()]) } }
impl<T: Dyn, const N: usize> Dyn for [T; N] { fn ty() -> String { format!("arr({},{})", N, T::ty()) }
    fn from_dv(v: &DV) -> Option<Self> { if let DV::Vec(l) = v { let x: Vec<T> = l.iter().map(T::from_dv).collect::<Option<_>>()?; x.try_into().ok() } else { None } }
    fn to_dv(&self) -> DV { DV::Vec(self.iter().map(|x| x.to_dv()).collect()) } }

/// Generate a value of the shape a type description asks for.
pub fn gen(r: &mut Rng, ty: &str, depth: usize) -> DV {
    let (head, args) = split_ty(ty);
    let small = |r: &mut Rng| -> usize { *r.pick(&[0usize, 0, 1, 1, 2, 3, 5, 15, 16, 17]) };
    match head.as_str() {
        "unit" => DV::Unit, "bool" => DV::Bool(r.chance(50)),
        "i32" => { let x = r.next_u64() as i32; DV::I32(*r.pick(&[0i32, 1, -1, 127, 128, -32, -33, 255, 256, 65535, 65536, i32::MAX, i32::MIN, x])) }
        "f64" => { let b = match r.below(4) { 0 => *r.pick(&[0u64, 1 << 63, 0x3ff0000000000000, 0x7fefffffffffffff, 0xffefffffffffffff, 0x4059000000000000, 1]), _ => r.next_u64() }; let f = f64::from_bits(b); DV::F64(if f.is_finite() { b } else { 0x3ff8000000000000 }) }
        "str" => { let n = *r.pick(&[0usize, 1, 2, 5, 31, 32, 33, 255, 256, 300]); let s = r.below(26) as u8; DV::Str((0..n).map(|i| (b'a' + ((s as usize + i) % 26) as u8) as char).collect()) }
        "int" => { let (lo, hi): (i128, i128) = match args[0].as_str() { "u8" => (0, 255), "i8" => (-128, 127), "u16" => (0, 65535), "i16" => (-32768, 32767), "u32" => (0, u32::MAX as i128), "i64" => (-(1 << 53), 1 << 53), "u64" => (0, 1 << 53), "usize" => (0, 1 << 53), _ => (-(1 << 53), 1 << 53) };
            DV::Int(match r.below(5) { 0 => lo, 1 => hi, 2 => 0.max(lo), _ => lo + (r.next_u64() as i128 % (hi - lo + 1)) }) }
        "opt" => if r.chance(35) { DV::Non } else { DV::Som(Box::new(gen(r, &args[0], depth))) },
        "vec" => { let n = if depth == 0 { 0 } else { small(r) }; DV::Vec((0..n).map(|_| gen(r, &args[0], depth - 1)).collect()) }
        "map" => { let n = if depth == 0 { 0 } else { small(r) }; DV::Map((0..n).map(|i| (if r.chance(10) { format!("{}{}", "x".repeat(31), i) } else { format!("k{}", i) }, gen(r, &args[0], depth - 1))).collect()) }
        "tuple" => DV::Tup(args.iter().map(|a| gen(r, a, depth.saturating_sub(1))).collect()),
        "arr" => { let n: usize = args[0].parse().unwrap(); DV::Vec((0..n).map(|_| gen(r, &args[1], depth.saturating_sub(1))).collect()) }
        x => panic!("gen: {}", x),
    }
}
pub fn split_ty(ty: &str) -> (String, Vec<String>) {
    match ty.find('(') { None => (ty.to_string(), vec![]), Some(i) => {
        let head = ty[..i].to_string(); let inner = &ty[i + 1..ty.len() - 1]; let mut args = vec![]; let mut d = 0; let mut cur = String::new();
        for c in inner.chars() { match c { '(' => { d += 1; cur.push(c) } ')' => { d -= 1; cur.push(c) } ',' if d == 0 => { args.push(std::mem::take(&mut cur)); } _ => cur.push(c) } }
        if !cur.is_empty() { args.push(cur); } (head, args) } }
}
pub fn parse_dv(s: &str) -> DV {
    fn go(b: &[u8], p: &mut usize) -> DV {
        let c = b[*p] as char; *p += 1;
        let tok = |b: &[u8], p: &mut usize| -> String { let st = *p; while *p < b.len() && !matches!(b[*p] as char, ',' | ')' | ']' | '}' | ':') { *p += 1; } String::from_utf8(b[st..*p].to_vec()).unwrap() };
        match c {
            'u' => DV::Unit, 'n' => DV::Non, 'b' => DV::Bool(tok(b, p) == "1"), 'i' => DV::I32(tok(b, p).parse().unwrap()), 'f' => DV::F64(u64::from_str_radix(&tok(b, p), 16).unwrap()),
            's' => DV::Str(String::from_utf8(unhex(&tok(b, p))).unwrap()), 'I' => { let t = tok(b, p); if let Some(m) = t.strip_prefix('-') { DV::Int(-(i128::from_str_radix(m, 16).unwrap())) } else { DV::Int(i128::from_str_radix(&t, 16).unwrap()) } }
            'S' => { *p += 1; let x = go(b, p); *p += 1; DV::Som(Box::new(x)) }
            'V' | 'T' => { *p += 1; let mut l = vec![]; while b[*p] as char != ']' { l.push(go(b, p)); if b[*p] as char == ',' { *p += 1; } } *p += 1; if c == 'V' { DV::Vec(l) } else { DV::Tup(l) } }
            'M' => { *p += 1; let mut l = vec![]; while b[*p] as char != '}' { let k = tok(b, p); *p += 1; let v = go(b, p); l.push((String::from_utf8(unhex(&k)).unwrap(), v)); if b[*p] as char == ',' { *p += 1; } } *p += 1; DV::Map(l) }
            x => panic!("parse_dv {}", x),
        } }
    let mut p = 0; go(s.as_bytes(), &mut p)
}

// ---- per concrete type operations, dispatched by family index
type SerFn = fn(&DV) -> Option<(DV, String)>;     // value in iteration order, observation
type DeFn = fn(&[u8]) -> String;
pub struct Entry { pub ty: String, pub ser: Option<SerFn>, pub de: DeFn }

fn ser_t<T: Dyn + Serialize + serde_json_ser::Ser>(v: &DV) -> Option<(DV, String)> {
    let t = T::from_dv(v)?;
    let canonical = t.to_dv();
    let r = std::panic::catch_unwind(std::panic::AssertUnwindSafe(|| {
        // every other serialisation runs after an invocation that was abandoned through the API two or three containers
        // deep (a closure error leaves them open): what is serialised must not depend on that history
        static TURN: std::sync::atomic::AtomicUsize = std::sync::atomic::AtomicUsize::new(0);
        let turn = TURN.fetch_add(1, std::sync::atomic::Ordering::Relaxed);
        if turn % 2 == 1 {
            shopify_function_provider::initialize_from_msgpack_bytes(vec![0xc0]);
            let mut c = Context;
            let _ = c.write_array(|c| c.write_object(|c| { c.write_utf8_str("k")?; c.write_array(|c| { c.write_i32(1)?; c.write_i32(2) }, 1) }, 2), 3);
        }
        shopify_function_provider::initialize_from_msgpack_bytes(vec![0xc0]);
        let mut ctx = Context;
        let st = match t.serialize(&mut ctx) { Ok(()) => 0usize, Err(_) => 1 };
        let bytes = shopify_function_provider::write::verif_output_bytes();
        // what serde would produce for the same Rust value
        let json_ok = match Context.finalize_output_and_return() { Ok(j) => t.json().map_or(true, |want| j == want), Err(_) => false };
        format!("SER {} {} JSON {}", st, crate::c03::digest(&bytes), json_ok as u8)
    }));
    Some((canonical, r.unwrap_or_else(|_| "PANIC".into())))
}
fn de_t<T: Dyn + Deserialize>(doc: &[u8]) -> String {
    let d = doc.to_vec();
    std::panic::catch_unwind(move || {
        shopify_function_provider::initialize_from_msgpack_bytes(d);
        let v = Context.input_get().unwrap();
        match T::deserialize(&v) { Ok(t) => format!("OK {}", dv_txt(&t.to_dv(), true)), Err(_) => "ERR".to_string() }
    }).unwrap_or_else(|_| "PANIC".into())
}
/// serde_json::to_value for the writable types (finite doubles only), without a serde dependency on generics.
mod serde_json_ser {
    use std::collections::HashMap;
    pub trait Ser { fn json(&self) -> Option<serde_json::Value>; }
    impl Ser for () { fn json(&self) -> Option<serde_json::Value> { Some(serde_json::Value::Null) } }
    impl Ser for bool { fn json(&self) -> Option<serde_json::Value> { Some(serde_json::json!(*self)) } }
    impl Ser for i32 { fn json(&self) -> Option<serde_json::Value> { Some(serde_json::json!(*self)) } }
    impl Ser for f64 { fn json(&self) -> Option<serde_json::Value> { if self.is_finite() { Some(serde_json::json!(*self)) } else { None } } }
    impl Ser for String { fn json(&self) -> Option<serde_json::Value> { Some(serde_json::json!(self)) } }
    impl<T: Ser> Ser for Option<T> { fn json(&self) -> Option<serde_json::Value> { match self { None => Some(serde_json::Value::Null), Some(x) => x.json() } } }
    impl<T: Ser> Ser for Vec<T> { fn json(&self) -> Option<serde_json::Value> { Some(serde_json::Value::Array(self.iter().map(|x| x.json()).collect::<Option<_>>()?)) } }
    impl<T: Ser> Ser for HashMap<String, T> { fn json(&self) -> Option<serde_json::Value> { let mut m = serde_json::Map::new(); for (k, v) in self { m.insert(k.clone(), v.json()?); } Some(serde_json::Value::Object(m)) } }
}
macro_rules! rw { ($t:ty) => { Entry { ty: <$t as Dyn>::ty(), ser: Some(ser_t::<$t>), de: de_t::<$t> } } }
macro_rules! ro { ($t:ty) => { Entry { ty: <$t as Dyn>::ty(), ser: None, de: de_t::<$t> } } }

pub fn family() -> Vec<Entry> {
    vec![rw!(()), rw!(bool), rw!(i32), rw!(f64), rw!(String), rw!(Option<i32>), rw!(Vec<i32>), rw!(Vec<String>), rw!(HashMap<String, i32>),
         rw!(Vec<Option<HashMap<String, Vec<i32>>>>), rw!(HashMap<String, Vec<Option<f64>>>), rw!(Option<Vec<bool>>), rw!(Vec<Vec<()>>),
         rw!(HashMap<String, HashMap<String, String>>), rw!(Vec<Vec<Vec<i32>>>), rw!(Vec<Vec<HashMap<String, i32>>>), rw!(HashMap<String, Vec<Vec<String>>>), rw!(Option<()>), rw!(Option<Option<i32>>), rw!(Vec<Option<()>>),
         ro!((i32, String)), ro!((bool, f64, Vec<i32>)), ro!([i32; 3]), ro!([Option<String>; 2]), ro!(u8), ro!(i64), ro!(Vec<u16>), ro!(HashMap<String, (i32, i32)>), ro!(i8), ro!(u64), ro!([(); 0])]
}

fn exec_line(fam: &[Entry], line: &str, last_out: &mut Vec<u8>) -> String {
    let t: Vec<&str> = line.splitn(3, ' ').collect();
    let e = fam.iter().find(|e| e.ty == t[1]).unwrap_or_else(|| panic!("unknown type {}", t[1]));
    match t[0] {
        "SER" => { let v = parse_dv(t[2]); match e.ser { Some(f) => match f(&v) { Some((_, o)) => { *last_out = shopify_function_provider::write::verif_output_bytes(); o } None => "BADVALUE".into() }, None => "NOSER".into() } }
        "DE" => (e.de)(&unhex(t[2])),
        "RT" => { let v = parse_dv(t[2]); match e.ser.and_then(|f| f(&v)) { Some((_, o)) if o.starts_with("SER 0") => { let bytes = shopify_function_provider::write::verif_output_bytes(); (e.de)(&bytes) } Some((_, o)) => format!("SERFAIL {}", o), None => "BADVALUE".into() } }
        _ => panic!("c09: bad line {}", line),
    }
}

pub fn run(a: &Args, out: &mut Out) {
    let fam = family();
    let mut last = vec![];
    if let Some(f) = &a.replay {
        let text = std::fs::read_to_string(f).unwrap(); let mut id = 0; let mut n = 0u64;
        for line in text.lines() { if line.starts_with("CASE ") { id = line.split_whitespace().nth(1).unwrap().parse().unwrap(); out.case(line); } else if line == "END" { out.case(line); } else if !line.trim().is_empty() { out.case(line); out.imp(&format!("{} {}", id, exec_line(&fam, line, &mut last))); n += 1; } }
        out.stat("evaluations", n.into()); out.stat("cases", 1.into()); return;
    }
    let thorough = a.tier == "thorough";
    let mut rng = Rng::new(a.seed);
    let per = if thorough { 400 } else { 40 };
    let mut id = 0usize; let mut evals = 0u64; let mut kinds = std::collections::BTreeMap::<String, u64>::new();
    let mut docs: Vec<(String, Vec<u8>)> = vec![]; let mut distinct = std::collections::BTreeSet::<String>::new();
    for e in &fam {
        if e.ser.is_none() { continue; }
        out.case(&format!("CASE {} {}", id, usize::BITS));
        for k in 0..per {
            let v0 = gen(&mut rng, &e.ty, if k < 3 { 0 } else { 4 });
            // the value in the HashMap's actual iteration order (what Serialize will follow)
            let (canon, o) = match (e.ser.unwrap())(&v0) { Some(x) => x, None => continue };
            let line = format!("SER {} {}", e.ty, dv_txt(&canon, false));
            out.case(&line); out.imp(&format!("{} {}", id, o)); evals += 1; *kinds.entry("SER".into()).or_insert(0) += 1;
            let bytes = shopify_function_provider::write::verif_output_bytes();
            if o.starts_with("SER 0") { if docs.len() < 4000 && (k % 3 == 0 || docs.len() < 200) { docs.push((e.ty.clone(), bytes.clone())); }
                let line = format!("RT {} {}", e.ty, dv_txt(&canon, false)); out.case(&line); out.imp(&format!("{} {}", id, (e.de)(&bytes))); evals += 1; *kinds.entry("RT".into()).or_insert(0) += 1;
                if matches!(canon, DV::Vec(ref l) if !l.is_empty()) || matches!(canon, DV::Map(ref l) if !l.is_empty()) { distinct.insert(line); } }
        }
        out.case("END"); id += 1;
    }
    // mismatching and matching (document, target type) pairs: every family type against documents written for the others
    out.case(&format!("CASE {} {}", id, usize::BITS));
    // vectors longer than any plausible pre-allocation cap (4097, 9000 elements), flat and nested
    {
        out.case(&format!("CASE {} {}", id, usize::BITS));
        for (ty, n_outer, n_inner) in [("vec(i32)", 4097usize, 0usize), ("vec(i32)", 9000, 0), ("vec(vec(vec(i32)))", 1, 4100), ("vec(str)", 4200, 0)] {
            let e = fam.iter().find(|e| e.ty == ty).unwrap();
            let v0 = if n_inner == 0 { DV::Vec((0..n_outer).map(|k| if ty == "vec(str)" { DV::Str(format!("s{}", k % 97)) } else { DV::I32((k as i32 % 1000) - 500) }).collect()) }
                     else { DV::Vec(vec![DV::Vec(vec![DV::Vec((0..n_inner).map(|k| DV::I32(k as i32 % 77)).collect()), DV::Vec(vec![])])]) };
            if let Some((canon, o)) = (e.ser.unwrap())(&v0) {
                let line = format!("SER {} {}", e.ty, dv_txt(&canon, false)); out.case(&line); out.imp(&format!("{} {}", id, o)); evals += 1;
                if o.starts_with("SER 0") { let bytes = shopify_function_provider::write::verif_output_bytes();
                    let line = format!("RT {} {}", e.ty, dv_txt(&canon, false)); out.case(&line); out.imp(&format!("{} {}", id, (e.de)(&bytes))); evals += 1; }
            }
        }
        out.case("END"); id += 1;
        out.case(&format!("CASE {} {}", id, usize::BITS));
    }
    let npairs = if thorough { 20000 } else { 2500 };
    for _ in 0..npairs {
        let (_, d) = rng.pick(&docs).clone(); let e = rng.pick(&fam);
        let line = format!("DE {} {}", e.ty, hex(&d)); out.case(&line); out.imp(&format!("{} {}", id, (e.de)(&d))); evals += 1; *kinds.entry("DE".into()).or_insert(0) += 1;
    }
    // hand-made documents for the read-side-only shapes
    for (ty, doc) in [("tuple(i32,str)", "9205a161"), ("tuple(i32,str)", "920505"), ("tuple(i32,str)", "9305a161c0"), ("arr(3,i32)", "93010203"), ("arr(3,i32)", "920102"), ("arr(3,i32)", "930102cb3ff8000000000000"),
                      ("int(u8)", "ccff"), ("int(u8)", "cd0100"), ("int(u8)", "cb406fe00000000000"), ("int(i8)", "d080"), ("int(i8)", "d1ff7f"), ("int(i64)", "cb43e0000000000000"), ("int(u64)", "cf0020000000000001"),
                      ("map(tuple(i32,i32))", "81a16b920102"), ("map(tuple(i32,i32))", "82a16b920102a16b920304"), ("arr(0,unit)", "90"), ("arr(0,unit)", "91c0"), ("vec(int(u16))", "92cdffffce00010000"),
                      ("tuple(i32,str)", "82a17805a179a161"), ("arr(3,i32)", "83a16101a16202a16303"), ("arr(0,unit)", "80"), ("map(tuple(i32,i32))", "81a16b82a17801a17902"),
                      ("tuple(bool,f64,vec(i32))", "83a161c3a162cb3ff8000000000000a16390"), ("arr(2,opt(str))", "82a161c0a162a178"),
                      ("f64", "05"), ("i32", "cb4014000000000000"), ("str", "05"), ("bool", "c0"), ("unit", "c2"), ("opt(i32)", "c0"), ("vec(i32)", "81a16101"), ("map(i32)", "9101")] {
        let line = format!("DE {} {}", ty, doc); let e = fam.iter().find(|e| e.ty == ty).unwrap(); out.case(&line); out.imp(&format!("{} {}", id, (e.de)(&unhex(doc)))); evals += 1;
    }
    out.case("END"); id += 1;
    out.stat("cases", id.into()); out.stat("evaluations", evals.into()); out.stat("distinct_nontrivial", (distinct.len() as u64).into());
    out.stat("kinds", serde_json::to_value(&kinds).unwrap()); out.stat("family", serde_json::to_value(fam.iter().map(|e| e.ty.clone()).collect::<Vec<_>>()).unwrap());
    out.stat("rule", "a family of concrete Rust types (listed under `family`) exercised through the REAL Serialize/Deserialize impls: for each writable type random values of every size incl. empty (HashMap values in their actual iteration order) are serialised (status, output bytes, and equality of the decoded output with serde_json's value), the output is handed back as input and deserialised (RT), and documents written for one type are deserialised into random other types of the family (DE: matching and mismatching pairs) plus hand-made documents for tuples, arrays and integer targets; non-trivial = round trips of non-empty vectors/maps; distinct = distinct (type, value)".into());
}
