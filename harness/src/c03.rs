//! C02 / C03: the output writer through the native provider functions (and api::Context::write_*).
//! After EVERY call the status and the current output bytes (hook verif_output_bytes) are observed.
use crate::{prng::*, Args, Out};
use shopify_function_provider as provider;
use shopify_function_wasm_api::Context;

#[derive(Clone, Debug)]
pub enum Op { Bool(u32), Null, I32(i32), F64(u64), Str(Vec<u8>), Intern(Vec<u8>), IStr(usize), SObj(usize), FObj, SArr(usize), FArr, Fin, Reinit }

pub fn op_txt(op: &Op) -> String {
    match op {
        Op::Bool(v) => format!("BOOL {}", v), Op::Null => "NULL".into(), Op::I32(z) => format!("I32 {}", z), Op::F64(b) => format!("F64 {:x}", b),
        Op::Str(s) => format!("STR {}", hex(s)), Op::Intern(s) => format!("INTERN {}", hex(s)), Op::IStr(i) => format!("ISTR {}", i),
        Op::SObj(n) => format!("SOBJ {}", n), Op::FObj => "FOBJ".into(), Op::SArr(n) => format!("SARR {}", n), Op::FArr => "FARR".into(), Op::Fin => "FIN".into(), Op::Reinit => "REINIT".into(),
    }
}
pub fn parse_op(line: &str) -> Option<Op> {
    let t: Vec<&str> = line.split_whitespace().collect();
    Some(match t.as_slice() {
        ["BOOL", v] => Op::Bool(v.parse().ok()?), ["NULL"] => Op::Null, ["I32", z] => Op::I32(z.parse().ok()?), ["F64", b] => Op::F64(u64::from_str_radix(b, 16).ok()?),
        ["STR", h] => Op::Str(unhex(h)), ["INTERN", h] => Op::Intern(unhex(h)), ["ISTR", i] => Op::IStr(i.parse().ok()?),
        ["SOBJ", n] => Op::SObj(n.parse().ok()?), ["FOBJ"] => Op::FObj, ["SARR", n] => Op::SArr(n.parse().ok()?), ["FARR"] => Op::FArr, ["FIN"] => Op::Fin, ["REINIT"] => Op::Reinit,
        _ => return None,
    })
}

/// Output bytes in comparable form: full hex when short, else length + checksums + both ends.
pub fn digest(b: &[u8]) -> String {
    if b.len() <= 600 { return format!("{} {}", b.len(), hex(b)); }
    let sum = b.iter().fold(0u32, |a, x| a.wrapping_mul(31).wrapping_add(*x as u32));
    let xr = b.iter().fold(0u8, |a, x| a.rotate_left(1) ^ x);
    format!("{} #{:08x}.{:02x}.{}.{}", b.len(), sum, xr, hex(&b[..24]), hex(&b[b.len() - 24..]))
}

pub fn api_status_pub(r: Result<(), shopify_function_wasm_api::write::Error>) -> usize { api_status(r) }
fn api_status(r: Result<(), shopify_function_wasm_api::write::Error>) -> usize {
    use shopify_function_wasm_api::write::Error::*;
    match r { Ok(()) => 0, Err(IoError) => 1, Err(ExpectedKey) => 2, Err(ObjectLengthError) => 3, Err(ValueAlreadyWritten) => 4, Err(NotAnObject) => 5,
              Err(ValueNotFinished) => 6, Err(ArrayLengthError) => 7, Err(NotAnArray) => 8, Err(_) => 99 }
}

pub fn exec(op: &Op, api: bool) -> String {
    let r = std::panic::catch_unwind(|| -> String {
        let st: usize = match op {
            Op::Fin => { let (r, bytes) = provider::write::shopify_function_output_finalize_and_return_msgpack_bytes(); return format!("FIN {} {}", r as usize, digest(&bytes)); }
            Op::Reinit => { provider::initialize_from_msgpack_bytes(vec![0xc0]); return "REINIT".to_string(); }
            Op::Intern(s) => {
                let r = provider::shopify_function_intern_utf8_str(s.len());
                unsafe { std::ptr::copy(s.as_ptr(), (r as usize) as *mut u8, s.len()) };
                return format!("ID {}", (r >> usize::BITS) as usize);
            }
            Op::Bool(v) => if api && *v <= 1 { api_status(Context.write_bool(*v == 1)) } else { provider::write::shopify_function_output_new_bool(*v) as usize },
            Op::Null => if api { api_status(Context.write_null()) } else { provider::write::shopify_function_output_new_null() as usize },
            Op::I32(z) => if api { api_status(Context.write_i32(*z)) } else { provider::write::shopify_function_output_new_i32(*z) as usize },
            Op::F64(b) => if api { api_status(Context.write_f64(f64::from_bits(*b))) } else { provider::write::shopify_function_output_new_f64(f64::from_bits(*b)) as usize },
            Op::Str(s) => if api && std::str::from_utf8(s).is_ok() { api_status(Context.write_utf8_str(std::str::from_utf8(s).unwrap())) } else {
                // what the glue does: destination request, copy only on success
                let r = provider::write::shopify_function_output_new_utf8_str(s.len());
                let st = (r >> usize::BITS) as usize; let dst = r as usize;
                if st == 0 { unsafe { std::ptr::copy(s.as_ptr(), dst as *mut u8, s.len()) }; }
                st },
            Op::IStr(id) => provider::write::shopify_function_output_new_interned_utf8_str(*id) as usize,
            Op::SObj(n) => provider::write::shopify_function_output_new_object(*n) as usize,
            Op::FObj => provider::write::shopify_function_output_finish_object() as usize,
            Op::SArr(n) => provider::write::shopify_function_output_new_array(*n) as usize,
            Op::FArr => provider::write::shopify_function_output_finish_array() as usize,
        };
        format!("ST {} {}", st, digest(&provider::write::verif_output_bytes()))
    });
    r.unwrap_or_else(|_| "PANIC".into())
}

static STREAM: std::sync::atomic::AtomicBool = std::sync::atomic::AtomicBool::new(false);
fn stream_obs() -> bool { STREAM.load(std::sync::atomic::Ordering::Relaxed) }

/// Child side of the crash isolation.
pub fn child_main() {
    use std::io::{BufRead, Write};
    STREAM.store(true, std::sync::atomic::Ordering::Relaxed);
    let stdin = std::io::stdin(); let mut id = 0usize; let mut api = false; let mut ops: Vec<Op> = vec![];
    for line in stdin.lock().lines() {
        let line = line.unwrap(); let t: Vec<&str> = line.split_whitespace().collect();
        match t.as_slice() {
            ["CASE", i, _w, m] => { id = i.parse().unwrap(); api = *m == "api"; ops.clear(); }
            ["END"] => { let _ = run_case(id, api, ops.clone()); println!("DONE"); std::io::stdout().flush().unwrap(); }
            _ => if let Some(op) = parse_op(&line) { ops.push(op) },
        }
    }
}

fn block_lines(id: usize, api: bool, ops: &[Op]) -> Vec<String> {
    let mut v = vec![format!("CASE {} {} {}", id, usize::BITS, if api { "api" } else { "prov" })];
    for op in ops { v.push(op_txt(op)); }
    v.push("END".into()); v
}

pub fn run_case(id: usize, api: bool, ops: Vec<Op>) -> Vec<String> {
    std::thread::Builder::new().stack_size(16 << 20).spawn(move || {
        use std::io::Write;
        provider::initialize_from_msgpack_bytes(vec![0xc0]);
        ops.iter().map(|op| { let l = format!("{} {}", id, exec(op, api)); if stream_obs() { println!("OB {}", l); std::io::stdout().flush().unwrap(); } l }).collect()
    }).unwrap().join().unwrap_or_else(|_| vec![format!("{} ABORT", id)])
}

// ---- generation: follows a shadow of the document state so that deep, mostly valid documents arise
#[derive(Clone)]
enum Fr { Obj(usize, usize), Arr(usize, usize) }   // declared, inserted (keys+values for objects)

fn gen_i32(r: &mut Rng) -> i32 {
    let (x, y) = (r.next_u64() as i32, (r.next_u64() % 70000) as i32 - 35000);
    *r.pick(&[0i32, 1, -1, 127, 128, -32, -33, -128, -129, 255, 256, 32767, 32768, -32768, -32769, 65535, 65536, i32::MAX, i32::MIN, i32::MAX - 1, i32::MIN + 1, x, y])
}
fn gen_f64(r: &mut Rng) -> u64 {
    let x = r.next_u64();
    match r.below(6) { 0 => *r.pick(&[0u64, 1 << 63, 0x7ff0000000000000, 0xfff0000000000000, 0x7ff8000000000000, 0x7ff0000000000001, 0xfff8000000000123, 0x3ff0000000000000, 1, 0x7fefffffffffffff]), _ => x }
}
fn gen_strlen(r: &mut Rng, big: bool) -> usize {
    if big && r.chance(20) { *r.pick(&[255usize, 256, 1000, 1024, 2040, 4096, 65535, 65536, 70000, 300_000]) } else { *r.pick(&[0usize, 1, 2, 5, 31, 32, 33, 3, 7]) }
}
fn gen_str(r: &mut Rng, big: bool) -> Vec<u8> { let n = gen_strlen(r, big); gen_bytes(r, n) }
fn gen_key(r: &mut Rng) -> Vec<u8> { let n = *r.pick(&[1usize, 2, 3, 31, 32]); gen_bytes(r, n) }
fn gen_bytes(r: &mut Rng, n: usize) -> Vec<u8> { let s = r.below(26) as u8; (0..n).map(|i| b'a' + ((s as usize + i) % 26) as u8).collect() }

pub fn gen_ops(r: &mut Rng, n: usize, big: bool, noise: u64, max_depth: usize) -> Vec<Op> {
    let mut ops = vec![]; let mut st: Vec<Fr> = vec![]; let mut done = false; let mut interned = 0usize;
    let lens_small = [0usize, 1, 1, 2, 2, 3, 4, 15, 16, 17];
    let lens_any = [0usize, 1, 2, 15, 16, 17, 65535, 65536, (1 << 31) - 1, 1 << 31, u32::MAX as usize];
    let mut after_done = 0usize; let tail = r.below(5) as usize;
    let mut bigs = 0usize;
    for _ in 0..n {
        if done { after_done += 1; if after_done > tail { break; } }
        if r.chance(4) { ops.push(Op::Fin); }
        if r.chance(5) { ops.push(Op::Intern(gen_str(r, false))); interned += 1; }
        let arbitrary = r.chance(noise);
        let mut value = |r: &mut Rng, st: &Vec<Fr>, interned: usize| -> Op {
            match r.below(12) {
                0 => Op::Bool(*r.pick(&[0u32, 1, 1, 2, u32::MAX, 0x100, 0x1_0000, 0x8000_0000, 0xffff_ff00, 0xff, 0x101])), 1 => Op::Null, 2 | 3 => Op::I32(gen_i32(r)), 4 => Op::F64(gen_f64(r)),
                5 | 6 => { let s = gen_str(r, big && bigs < 6); if s.len() > 200 { bigs += 1; } Op::Str(s) }
                7 => if interned > 0 { Op::IStr(r.below(interned as u64) as usize) } else { Op::Null },
                8 | 9 => if st.len() < max_depth { Op::SObj(*r.pick(&lens_small)) } else { Op::I32(gen_i32(r)) },
                _ => if st.len() < max_depth { Op::SArr(*r.pick(&lens_small)) } else { Op::Null },
            } };
        let op = if arbitrary {
            match r.below(12) { 0 => Op::FObj, 1 => Op::FArr, 2 => Op::SObj(*r.pick(&lens_any)), 3 => Op::SArr(*r.pick(&lens_any)), 4 => Op::Str(gen_bytes(r, 2)), _ => value(r, &st, interned) }
        } else if done { if r.chance(50) { Op::Fin } else { value(r, &st, interned) } }
        else { match st.last().cloned() {
            None => if r.chance(85) && max_depth > 0 { if r.chance(50) { Op::SObj(*r.pick(&lens_small)) } else { Op::SArr(*r.pick(&lens_small)) } } else { value(r, &st, interned) },
            Some(Fr::Arr(d, i)) => if i >= d { Op::FArr } else { value(r, &st, interned) },
            Some(Fr::Obj(d, i)) => if i >= 2 * d { Op::FObj } else if i % 2 == 0 { if interned > 0 && r.chance(25) { Op::IStr(r.below(interned as u64) as usize) } else { Op::Str(gen_key(r)) } } else { value(r, &st, interned) },
        } };
        // shadow update (mirrors the documented grammar; only used to steer generation)
        let is_str = matches!(op, Op::Str(_) | Op::IStr(_));
        let accept_value = |st: &mut Vec<Fr>, done: &mut bool, is_str: bool| -> bool {
            if *done { return false; }
            match st.last_mut() { None => { true }
                Some(Fr::Arr(d, i)) => if *i < *d { *i += 1; true } else { false },
                Some(Fr::Obj(d, i)) => if *i % 2 == 0 { if is_str && *i / 2 < *d { *i += 1; true } else { false } } else { *i += 1; true } } };
        match &op {
            Op::SObj(d) => { if accept_value(&mut st, &mut done, false) { st.push(Fr::Obj(*d, 0)); } }
            Op::SArr(d) => { if accept_value(&mut st, &mut done, false) { st.push(Fr::Arr(*d, 0)); } }
            Op::FObj => { if let Some(Fr::Obj(d, i)) = st.last() { if *i == 2 * *d { st.pop(); if st.is_empty() { done = true; } } } }
            Op::FArr => { if let Some(Fr::Arr(d, i)) = st.last() { if *i == *d { st.pop(); if st.is_empty() { done = true; } } } }
            Op::Fin | Op::Intern(_) | Op::Reinit => {}
            _ => { let top = st.is_empty(); if accept_value(&mut st, &mut done, is_str) && top { done = true; } }
        }
        ops.push(op);
    }
    ops.push(Op::Fin);
    ops
}

fn emit(out: &mut Out, id: usize, api: bool, ops: &[Op], obs: &[String]) {
    out.case(&format!("CASE {} {} {}", id, usize::BITS, if api { "api" } else { "prov" }));
    for op in ops { out.case(&op_txt(op)); }
    out.case("END");
    for o in obs { out.imp(o); }
}

pub fn run_replay(f: &str, out: &mut Out) {
    let mut iso = crate::Isolated::new("c03");
    let text = std::fs::read_to_string(f).unwrap();
    let mut id = 0usize; let mut api = false; let mut ops: Vec<Op> = vec![]; let mut n = 0u64; let mut cases = 0u64;
    for line in text.lines() {
        let t: Vec<&str> = line.split_whitespace().collect();
        match t.as_slice() {
            ["CASE", i, _w, m] => { id = i.parse().unwrap(); api = *m == "api"; ops.clear(); }
            ["END"] => { let obs = iso.run_block(id, &block_lines(id, api, &ops), ops.len()); n += obs.len() as u64; cases += 1; emit(out, id, api, &ops, &obs); }
            _ => if let Some(op) = parse_op(line) { ops.push(op) },
        }
    }
    out.stat("evaluations", n.into()); out.stat("cases", cases.into());
}

pub fn run(a: &Args, out: &mut Out, c02: bool) {
    if let Some(f) = &a.replay { return run_replay(f, out); }
    let thorough = a.tier == "thorough";
    let mut rng = Rng::new(a.seed ^ if c02 { 0x2222 } else { 0 });
    let ncases = a.n.unwrap_or(if thorough { 4000 } else { 400 }) as usize;
    let mut evals = 0u64; let mut id = 0usize;
    let mut distinct = std::collections::BTreeSet::<String>::new();
    let mut opk = std::collections::BTreeMap::<String, u64>::new(); let mut stk = std::collections::BTreeMap::<String, u64>::new();
    let mut iso = crate::Isolated::new("c03");
    let mut completed = 0u64; let mut maxout = 0usize; let mut growth = std::collections::BTreeSet::<usize>::new();
    if let Some(c) = &a.corpus { if std::path::Path::new(c).exists() { run_replay(c, out); id = 100000; } }
    for i in 0..ncases {
        let mut r = rng.fork(i as u64);
        let api = r.chance(25);
        let c02big = r.chance(20);
        let (n, big, noise, depth) = if c02 { (if c02big { r.range(10, 40) } else { r.range(10, 120) } as usize, c02big, 8, 6) } else { (r.range(3, 40) as usize, r.chance(10), 25, 5) };
        let mut ops = gen_ops(&mut r, n, big, noise, depth);
        // 30%: the case is a SECOND invocation on its thread, after an abandoned / finished / erroneous first one
        if r.chance(30) { let k = r.range(1, 10) as usize; let d0 = r.range(1, 4) as usize; let mut pre = gen_ops(&mut r, k, false, 30, d0); pre.retain(|o| !matches!(o, Op::Intern(_) | Op::IStr(_))); pre.push(Op::Reinit); pre.extend(ops); ops = pre; }
        let obs = iso.run_block(id, &block_lines(id, api, &ops), ops.len());
        for (op, o) in ops.iter().zip(&obs) {
            *opk.entry(op_txt(op).split_whitespace().next().unwrap().to_string()).or_insert(0) += 1;
            let p: Vec<&str> = o.split_whitespace().collect();
            if p.len() > 2 && (p[1] == "ST" || p[1] == "FIN") { *stk.entry(format!("{} {}", p[1], p[2])).or_insert(0) += 1;
                if let Ok(l) = p[3].parse::<usize>() { maxout = maxout.max(l); for g in [1024usize, 2048, 4096, 8192, 65536, 1 << 20] { if l >= g { growth.insert(g); } } } }
        }
        let fin_ok = obs.iter().any(|o| o.contains(" FIN 0 "));
        let nested = ops.iter().filter(|o| matches!(o, Op::SObj(_) | Op::SArr(_))).count() >= 2;
        if fin_ok { completed += 1; if nested { distinct.insert(ops.iter().map(op_txt).collect::<Vec<_>>().join(";")); } }
        evals += ops.len() as u64;
        emit(out, id, api, &ops, &obs); id += 1;
    }
    if thorough && c02 { // one 65536-element array and one 65535-pair... kept to arrays (model cost is quadratic in output size)
        for len in [65535usize, 65536] {
            let mut ops = vec![Op::SArr(len)]; for k in 0..len { ops.push(if k % 1000 == 0 { Op::I32(k as i32) } else { Op::Null }); } ops.push(Op::FArr); ops.push(Op::Fin);
            let obs = iso.run_block(id, &block_lines(id, false, &ops), ops.len()); evals += ops.len() as u64; emit(out, id, false, &ops, &obs); id += 1; completed += 1;
        }
    }
    out.stat("cases", id.into());
    out.stat("evaluations", evals.into());
    out.stat("distinct_nontrivial", (distinct.len() as u64).into());
    out.stat("completed_documents", completed.into());
    out.stat("ops", serde_json::to_value(&opk).unwrap());
    out.stat("statuses", serde_json::to_value(&stk).unwrap());
    out.stat("max_output_bytes", maxout.into());
    out.stat("buffer_growth_points_crossed", serde_json::to_value(&growth).unwrap());
    out.stat("rule", "call sequences from a generator that follows the documented grammar (so deep, mostly valid documents arise) with arbitrary operations injected (25% for C03, 8% for C02), continuing after errors and after completion; declared lengths from {0,1,2,3,4,15,16,17} when steering and {0,1,2,15,16,17,65535,65536,2^31-1,2^31,2^32-1} when arbitrary; strings of 0,1,2,..,31,32,33 bytes and (C02) 255,256,1000,1024,2040,4096,65535,65536,70000,300000 bytes so that the output crosses the 1 KiB..1 MiB growth points; every i32 format boundary; f64 patterns incl. NaNs with payloads, -0.0, infinities; booleans 0,1,2,u32::MAX; strings written directly and by interned id; 25% of cases through api::Context::write_*; status and current output bytes observed after EVERY call, finalize attempted at random points; non-trivial = completed document with at least two containers; distinct = distinct op sequences".into());
}
