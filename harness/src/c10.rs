//! C10: <int>::deserialize(&Value) on doubles supplied as MessagePack f64 input.
use crate::{prng::*, Args, Out};
use shopify_function_wasm_api::{Context, Deserialize};

pub const TYPES: [&str; 11] = ["i8", "i16", "i32", "i64", "u8", "u16", "u32", "u64", "usize", "isize", "echo"];

/// The example guest api/examples/echo.rs carries its own copy of the i32 guard; it is compiled in
/// from the repository so that it is exercised like the macro ("echo" target = Value::Integer or not).
#[allow(dead_code, unused_imports)]
mod echo_example { include!("/repo/api/examples/echo.rs");
    pub fn as_integer(v: &shopify_function_wasm_api::Value) -> Option<Option<i128>> {
        use shopify_function_wasm_api::Deserialize;
        match Value::deserialize(v) { Ok(Value::Integer(i)) => Some(Some(i as i128)), Ok(_) => Some(None), Err(_) => None }
    }
}

fn des(ty: &str, bits: u64) -> String {
    let mut bytes = vec![0xcb]; bytes.extend_from_slice(&bits.to_be_bytes());
    let ty = ty.to_string();
    let r = std::panic::catch_unwind(move || {
        shopify_function_provider::initialize_from_msgpack_bytes(bytes);
        let v = Context.input_get().unwrap();
        fn f<T: Deserialize + Into<i128>>(v: &shopify_function_wasm_api::Value) -> Option<i128> { T::deserialize(v).ok().map(|x| x.into()) }
        match ty.as_str() {
            "i8" => f::<i8>(&v), "i16" => f::<i16>(&v), "i32" => f::<i32>(&v), "i64" => f::<i64>(&v),
            "u8" => f::<u8>(&v), "u16" => f::<u16>(&v), "u32" => f::<u32>(&v), "u64" => f::<u64>(&v),
            "usize" => usize::deserialize(&v).ok().map(|x| x as i128),
            "isize" => isize::deserialize(&v).ok().map(|x| x as i128),
            "echo" => echo_example::as_integer(&v).flatten(),
            _ => panic!("type"),
        }
    });
    match r {
        Err(_) => "PANIC".into(),
        Ok(None) => "ERR".into(),
        Ok(Some(x)) => if x < 0 { format!("OK -{:x}", -x) } else { format!("OK {:x}", x) },
    }
}

fn run_lines(out: &mut Out, id: usize, lines: &[String]) {
    out.case(&format!("CASE {} {}", id, usize::BITS));
    for l in lines {
        out.case(l);
        let t: Vec<&str> = l.split_whitespace().collect();
        out.imp(&format!("{} {}", id, des(t[1], u64::from_str_radix(t[2], 16).unwrap())));
    }
    out.case("END");
}

pub fn run(a: &Args, out: &mut Out) {
    if let Some(f) = &a.replay {
        let text = std::fs::read_to_string(f).unwrap();
        let mut id = 0; let mut cur: Vec<String> = vec![]; let mut n = 0u64;
        for line in text.lines() {
            if line.starts_with("CASE ") { id = line.split_whitespace().nth(1).unwrap().parse().unwrap(); cur.clear(); }
            else if line == "END" { n += cur.len() as u64; run_lines(out, id, &cur); }
            else if !line.trim().is_empty() { cur.push(line.to_string()); }
        }
        out.stat("evaluations", n.into()); out.stat("cases", 1.into());
        return;
    }
    let mut rng = Rng::new(a.seed);
    let thorough = a.tier == "thorough";
    let mut pats: Vec<u64> = vec![];
    let mut always: Vec<u64> = vec![];
    let ulp = |b: u64, d: i64| (b as i64 + d) as u64;
    // every power of two +-3 ulp in the whole exponent range (both signs), halves
    for e in 0..2047u64 { let b = e << 52; for d in -3..=3 { pats.push(ulp(b, d)); pats.push(ulp(b, d) | (1 << 63)); } }
    // each type's MIN/MAX as f64 and neighbours, MIN-1, MAX+1, +-0.5
    for k in [7u32, 8, 15, 16, 31, 32, 63, 64] {
        for v in [2f64.powi(k as i32), 2f64.powi(k as i32) - 1.0, 2f64.powi(k as i32) + 1.0, -(2f64.powi(k as i32)), -(2f64.powi(k as i32)) - 1.0, -(2f64.powi(k as i32)) + 1.0,
                  2f64.powi(k as i32) - 0.5, 2f64.powi(k as i32) - 1.5, -(2f64.powi(k as i32)) - 0.5, -(2f64.powi(k as i32)) + 0.5] {
            for d in -3..=3 { always.push(ulp(v.to_bits(), d)); } } }
    for v in [0.0f64, -0.0, 0.5, -0.5, 1.5, 1e300, -1e300, f64::INFINITY, f64::NEG_INFINITY, f64::MAX, f64::MIN, f64::MIN_POSITIVE, 5e-324, 4503599627370496.0, 9007199254740992.0, 9007199254740993.0, 1e-17, -1e-17, 2.2e-16, 1.1e-16] { always.push(v.to_bits()); }
    for i in -300i64..300 { pats.push((i as f64).to_bits()); pats.push((i as f64 + 0.25).to_bits()); }
    let nrand = if thorough { 100_000 } else { 6_000 };
    for _ in 0..nrand { pats.push(rng.next_u64()); }
    for _ in 0..nrand / 2 { // random integers of random magnitude
        let k = rng.below(66); let m = rng.next_u64() >> rng.below(64);
        let v = (m as f64) * 2f64.powi(k as i32 - 40); pats.push(if rng.chance(50) { v.to_bits() } else { (-v).to_bits() }); }
    // NaN inputs panic in input_get today (finding F1 of C08); they are exercised there
    let pats: Vec<u64> = pats.into_iter().filter(|b| !f64::from_bits(*b).is_nan()).collect();
    let always: Vec<u64> = always.into_iter().filter(|b| !f64::from_bits(*b).is_nan()).collect();
    let mut id = 0usize; let mut evals = 0u64; let mut accepted = std::collections::BTreeSet::<String>::new();
    let step = if thorough { 1 } else { 3 };
    for (ti, ty) in TYPES.iter().enumerate() {
        let mut lines: Vec<String> = always.iter().map(|b| format!("DES {} {:x}", ty, b)).collect();
        lines.extend(pats.iter().enumerate().filter(|(i, _)| thorough || (i + ti) % step == 0 || *i > pats.len() - (nrand as usize)).map(|(_, b)| format!("DES {} {:x}", ty, b)));
        for chunk in lines.chunks(1000) {
            evals += chunk.len() as u64;
            run_lines(out, id, chunk); id += 1;
        }
        let _ = &mut accepted;
    }
    out.stat("cases", id.into());
    out.stat("evaluations", evals.into());
    out.stat("patterns", (pats.len() + always.len()).into());
    out.stat("rule", "ten integer targets (+ the echo example's own i32 guard) x doubles: every power of two +-3 ulp over the whole exponent range and both signs, each type's MIN/MAX and +-1, +-0.5 with +-3 ulp neighbours, small integers and quarters, specials, random patterns, random integers of random magnitude; NaNs excluded here (input NaN is C08's finding); distinct_nontrivial = distinct (type, pattern) pairs accepted by the implementation (counted by ./check)".into());
}
