//! C05: log ring. Each case is a fresh thread (fresh CONTEXT); a list of messages is logged
//! either through the provider function (plan observed, copy done by the harness exactly as the
//! glue does) or through `api::Context::log`; the host view is taken through the hook, which
//! calls the real `Logs::read_ptrs`.
use crate::{prng::*, Args, Out};
use shopify_function_provider as provider;

/// Message content: ASCII bytes carrying a running counter, or (start >= 1000) valid multi-byte UTF-8 text of exactly
/// `len` bytes: `len % k` ASCII bytes followed by a repeated k-byte character (k = 2, 3, 4).
pub fn msg_bytes(len: usize, start: u64) -> Vec<u8> {
    if start >= 1000 {
        let ch: &[u8] = match start - 1000 { 0 => "\u{e9}".as_bytes(), 1 => "\u{20ac}".as_bytes(), _ => "\u{1f600}".as_bytes() };
        let mut v = vec![b'x'; len % ch.len()];
        while v.len() < len { v.extend_from_slice(ch); }
        return v;
    }
    (0..len as u64).map(|k| ((start + k) % 127) as u8 + 1).collect()
}

/// Host view computed from the hook with bounds checks (a bad pointer is reported, not followed).
fn view() -> String {
    let (buf, base, cap, w) = provider::log::verif_log_view();
    let seg = |p: usize, l: usize| -> Result<Vec<u8>, String> {
        if l == 0 { return Ok(vec![]); }
        if p < base || p - base + l > cap { return Err(format!("OOB({},{})", p as i128 - base as i128, l)); }
        Ok(buf[p - base..p - base + l].to_vec())
    };
    match (seg(w[0], w[1]), seg(w[2], w[3])) {
        (Ok(mut a), Ok(b)) => { a.extend(b); format!("VIEW {}", hex(&a)) }
        (a, b) => format!("VIEW-ERR {:?} {:?}", a.err(), b.err()),
    }
}

pub fn capacity() -> usize { std::thread::spawn(|| provider::log::verif_log_view().2).join().unwrap() }

#[derive(Clone)]
pub enum Op { Msg(usize, u64), View }

pub fn run_case(id: usize, api_mode: bool, ops: Vec<Op>) -> Vec<String> {
    std::thread::spawn(move || {
        use std::io::Write;
        let mut lines = vec![];
        provider::initialize_from_msgpack_bytes(vec![0xc0]);
        for op in ops {
            let r = std::panic::catch_unwind(|| match op {
                Op::Msg(len, start) => {
                    let m = msg_bytes(len, start);
                    if api_mode {
                        let mut ctx = shopify_function_wasm_api::Context;
                        ctx.log(std::str::from_utf8(&m).unwrap());
                        "LOGGED".to_string()
                    } else {
                        let (_, base, cap, _) = provider::log::verif_log_view();
                        let addr = provider::log::shopify_function_log_new_utf8_str(len) as *const [usize; 5];
                        let a = unsafe { *addr };
                        let rel = |p: usize| if p == 0 { "null".to_string() } else { format!("{}", p as i128 - base as i128) };
                        // perform the copies as the glue does, but refuse out-of-bounds destinations
                        let inb = |p: usize, l: usize| l == 0 || (p >= base && p - base + l <= cap);
                        let src_ok = a[0].checked_add(a[2]).and_then(|x| x.checked_add(a[4])).map_or(false, |x| x <= len);
                        if inb(a[1], a[2]) && inb(a[3], a[4]) && src_ok {
                            unsafe {
                                std::ptr::copy(m.as_ptr().add(a[0]), a[1] as *mut u8, a[2]);
                                if a[4] > 0 { std::ptr::copy(m.as_ptr().add(a[0]).add(a[2]), a[3] as *mut u8, a[4]); }
                            }
                        }
                        format!("PLAN {} {} {} {} {}", a[0], rel(a[1]), a[2], rel(a[3]), a[4])
                    }
                }
                Op::View => view(),
            });
            let l = match r { Ok(s) => format!("{} {}", id, s), Err(_) => format!("{} PANIC", id) };
            println!("OB {}", l); std::io::stdout().flush().unwrap();
            lines.push(l);
        }
        lines
    }).join().unwrap()
}

/// Child side of the crash isolation: read case blocks from stdin, stream observations.
pub fn child_main() {
    use std::io::{BufRead, Write};
    let stdin = std::io::stdin(); let mut block = String::new();
    for line in stdin.lock().lines() {
        let line = line.unwrap(); block.push_str(&line); block.push('\n');
        if line == "END" {
            for (id, api_mode, ops) in parse_cases(&block) { let _ = run_case(id, api_mode, ops); }
            block.clear(); println!("DONE"); std::io::stdout().flush().unwrap();
        }
    }
}

fn block_lines(id: usize, cap: usize, api_mode: bool, ops: &[Op]) -> Vec<String> {
    let mut v = vec![format!("CASE {} {} {}", id, cap, if api_mode { "api" } else { "prov" })];
    for op in ops { v.push(match op { Op::Msg(l, s) => format!("MSG {} {}", l, s), Op::View => "VIEW".to_string() }); }
    v.push("END".into()); v
}

fn emit(out: &mut Out, id: usize, cap: usize, api_mode: bool, ops: &[Op]) {
    out.case(&format!("CASE {} {} {}", id, cap, if api_mode { "api" } else { "prov" }));
    for op in ops { match op { Op::Msg(l, s) => out.case(&format!("MSG {} {}", l, s)), Op::View => out.case("VIEW") } }
    out.case("END");
}

/// Parse case blocks (replay / corpus files).
pub fn parse_cases(text: &str) -> Vec<(usize, bool, Vec<Op>)> {
    let mut res = vec![]; let mut cur: Option<(usize, bool, Vec<Op>)> = None;
    for line in text.lines() {
        let t: Vec<&str> = line.split_whitespace().collect();
        match t.as_slice() {
            ["CASE", id, _cap, mode] => cur = Some((id.parse().unwrap(), *mode == "api", vec![])),
            ["MSG", l, s] => cur.as_mut().unwrap().2.push(Op::Msg(l.parse().unwrap(), s.parse().unwrap())),
            ["VIEW"] => cur.as_mut().unwrap().2.push(Op::View),
            ["END"] => res.push(cur.take().unwrap()),
            _ => {}
        }
    }
    res
}

pub fn run(a: &Args, out: &mut Out) {
    let cap = capacity();
    let mut iso = crate::Isolated::new("c05");
    if let Some(f) = &a.replay {
        let mut evals = 0u64; let mut n = 0u64;
        for (id, api_mode, ops) in parse_cases(&std::fs::read_to_string(f).unwrap()) {
            emit(out, id, cap, api_mode, &ops); evals += ops.len() as u64; n += 1;
            for l in iso.run_block(id, &block_lines(id, cap, api_mode, &ops), ops.len()) { out.imp(&l); }
        }
        out.stat("cases", n.into()); out.stat("evaluations", evals.into());
        return;
    }
    let mut rng = Rng::new(a.seed);
    let ncases = a.n.unwrap_or(if a.tier == "thorough" { 3000 } else { 300 }) as usize;
    let special = [0, 1, 2, cap - 1, cap, cap + 1, 2 * cap - 1, 2 * cap, 2 * cap + 1, 5 * cap + 3, cap / 2, cap / 2 + 1];
    let mut len_hist = std::collections::BTreeMap::<&str, u64>::new();
    let mut nontrivial = std::collections::BTreeSet::<String>::new();
    let mut evals = 0u64;
    let mut wrapped_cases = 0u64;
    for id in 0..ncases {
        let mut r = rng.fork(id as u64);
        let api_mode = r.chance(30);
        let nmsgs = r.range(1, 12) as usize;
        let mut ops = vec![];
        let mut counter = r.below(127);
        let mut total = 0usize;
        let mut key = String::new();
        for _ in 0..nmsgs {
            let len = match r.below(10) {
                0..=2 => *r.pick(&special),
                3..=5 => r.below(40) as usize,
                6..=7 => r.below(cap as u64 + 200) as usize,
                8 => cap - 1 - r.below(5) as usize + r.below(10) as usize,
                _ => r.below(3 * cap as u64) as usize,
            };
            *len_hist.entry(if len == 0 { "0" } else if len < cap { "1..cap-1" } else if len == cap { "cap" } else if len <= 2 * cap { "cap+1..2cap" } else { ">2cap" }).or_insert(0) += 1;
            // through the API also multi-byte UTF-8 text (a cut must never depend on character boundaries)
            ops.push(Op::Msg(len, if api_mode && r.chance(35) { 1000 + r.below(3) } else { counter }));
            counter = (counter + len as u64) % 127;
            total += len;
            key.push_str(&format!("{},", len));
            if r.chance(60) { ops.push(Op::View); }
        }
        ops.push(Op::View);
        emit(out, id, cap, api_mode, &ops);
        evals += ops.len() as u64;
        if total > cap { wrapped_cases += 1; nontrivial.insert(key); }
        for l in iso.run_block(id, &block_lines(id, cap, api_mode, &ops), ops.len()) { out.imp(&l); }
    }
    out.stat("cases", ncases.into());
    out.stat("capacity", cap.into());
    out.stat("evaluations", evals.into());
    out.stat("distinct_nontrivial", (nontrivial.len() as u64).into());
    out.stat("wrapped_cases", wrapped_cases.into());
    out.stat("length_classes", serde_json::to_value(&len_hist).unwrap());
    out.stat("rule", "a case is a fresh thread logging 1-12 messages (lengths from {0,1,2,cap-1,cap,cap+1,2cap-1,2cap,2cap+1,5cap+3,...} and random), 30% through api::Context::log, the rest through the provider call with the plan observed; the host view is read after ~60% of messages and at the end; non-trivial = the ring wrapped (total > capacity); distinct = distinct length sequences".into());
}
