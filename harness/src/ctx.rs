//! C12 / C13 / C14: per-thread context. Provider-level steps (split where a provider call hands back a
//! destination or a copy plan and the glue copies afterwards) are executed on real OS threads, one
//! step at a time in the order a schedule prescribes (baton passing: the main thread sends a step to
//! a worker and waits for its observation).
use crate::{c01, c03, prng::*, Args, Out};
use shopify_function_provider as provider;
use shopify_function_wasm_api::CachedInternedStringId;
use std::sync::mpsc::{channel, Receiver, Sender};
use std::sync::Mutex;

pub const KEYS: [&str; 8] = ["foo", "bar", "k0", "k1", "a", "title", "fo", "ti"];
/// keys 6 and 7 are leading slices of the SAME static strings as keys 0 and 5: different contents, same start address
static BASE_FOO: &str = "foo";
static BASE_TITLE: &str = "title";
fn key_str(k: usize) -> &'static str { match k { 0 => BASE_FOO, 5 => BASE_TITLE, 6 => &BASE_FOO[..2], 7 => &BASE_TITLE[..2], _ => KEYS[k] } }
static CACHED: [CachedInternedStringId; 6] = [CachedInternedStringId::new("foo"), CachedInternedStringId::new("bar"), CachedInternedStringId::new("k0"),
    CachedInternedStringId::new("k1"), CachedInternedStringId::new("a"), CachedInternedStringId::new("title")];

/// Every thread's log buffer (base, capacity): a copy is only performed into a known buffer.
static LOG_BUFS: Mutex<Vec<(usize, usize)>> = Mutex::new(Vec::new());

struct Worker { reads: Vec<c01::Obs>, str_dest: Option<(usize, usize)>, intern_dest: Option<(usize, usize)>, log_area: usize,
    /// a NON-static cached-id handle whose storage is reused for different strings (every other LOAD goes through it)
    slot: Box<CachedInternedStringId>, loads: usize }

fn exec(w: &mut Worker, step: &str) -> String {
    let t: Vec<&str> = step.split_whitespace().collect();
    match t.as_slice() {
        ["INIT", h] => { provider::initialize_from_msgpack_bytes(unhex(h)); w.reads.clear();
            let (_, base, cap, _) = provider::log::verif_log_view(); let mut b = LOG_BUFS.lock().unwrap(); if !b.contains(&(base, cap)) { b.push((base, cap)); } "UNIT".into() }
        ["R", rest @ ..] => { let op = c01::parse_op(&rest.join(" ")).unwrap(); let mut s = c01::Session { answers: std::mem::take(&mut w.reads), ids: Default::default() }; let o = s.exec(&op); w.reads = s.answers; o }
        ["RIPROP", sc, id] => {
            let v = match (*sc, sc.parse::<usize>()) { ("g", _) => c01::garbage_val(), (_, Ok(k)) => match w.reads.get(k) { Some(c01::Obs::Val(v, _)) => *v, _ => c01::garbage_val() }, _ => c01::garbage_val() };
            let r = provider::read::shopify_function_input_get_interned_obj_prop(v, id.parse().unwrap());
            let s = c01::show_val(r); w.reads.push(c01::Obs::Val(r, s.clone())); s }
        ["W", rest @ ..] => { let op = c03::parse_op(&rest.join(" ")).unwrap(); let o = c03::exec(&op, false); let p: Vec<&str> = o.split_whitespace().collect(); if p[0] == "ST" { format!("ST {}", p[1]) } else { o } }
        ["STRDEST", n] => { let n: usize = n.parse().unwrap(); let r = provider::write::shopify_function_output_new_utf8_str(n); let st = (r >> usize::BITS) as usize;
            w.str_dest = if st == 0 { Some((r as usize, n)) } else { None }; format!("DEST {}", st) }
        ["STRCOPY", h] => { let s = unhex(h); if let Some((dst, n)) = w.str_dest.take() { unsafe { std::ptr::copy(s.as_ptr(), dst as *mut u8, s.len().min(n)) }; } "UNIT".into() }
        ["ISTR", id] => format!("ST {}", provider::write::shopify_function_output_new_interned_utf8_str(id.parse().unwrap()) as usize),
        ["INTERNDEST", n] => { let n: usize = n.parse().unwrap(); let r = provider::shopify_function_intern_utf8_str(n); w.intern_dest = Some((r as usize, n)); format!("ID {}", (r >> usize::BITS) as usize) }
        ["INTERNCOPY", h] => { let s = unhex(h); if let Some((dst, n)) = w.intern_dest.take() { unsafe { std::ptr::copy(s.as_ptr(), dst as *mut u8, s.len().min(n)) }; } "UNIT".into() }
        ["LOGPLAN", n] => { let n: usize = n.parse().unwrap(); let (_, base, cap, _) = provider::log::verif_log_view();
            { let mut b = LOG_BUFS.lock().unwrap(); if !b.contains(&(base, cap)) { b.push((base, cap)); } }
            let addr = provider::log::shopify_function_log_new_utf8_str(n) as usize; w.log_area = addr; let a = unsafe { *(addr as *const [usize; 5]) };
            let rel = |p: usize| if p == 0 { "null".to_string() } else { format!("{}", p as i128 - base as i128) };
            format!("PLAN {} {} {} {} {}", a[0], rel(a[1]), a[2], rel(a[3]), a[4]) }
        ["LOGCOPY", h] => { let m = unhex(h); if w.log_area != 0 {
                // what the glue does: read the plan from the return area NOW, then copy
                let a = unsafe { *(w.log_area as *const [usize; 5]) };
                let known = |p: usize, l: usize| l == 0 || LOG_BUFS.lock().unwrap().iter().any(|(b, c)| p >= *b && p + l <= *b + *c);
                let avail = |off: usize, l: usize| if off >= m.len() { 0 } else { l.min(m.len() - off) };
                let (l1, l2) = (avail(a[0], a[2]), avail(a[0].saturating_add(a[2]), a[4]));
                if known(a[1], a[2]) && known(a[3], a[4]) { unsafe {
                    std::ptr::copy(m.as_ptr().add(a[0].min(m.len())), a[1] as *mut u8, l1);
                    if a[4] > 0 { std::ptr::copy(m.as_ptr().add(a[0].saturating_add(a[2]).min(m.len())), a[3] as *mut u8, l2); } } } }
            "UNIT".into() }
        // a cached-id handle that is a `static` (what applications declare), always the same one per key
        ["SLOAD", k] => { let k = k.parse::<usize>().unwrap(); let id = CACHED[k].load(); let n: usize = unsafe { std::mem::transmute_copy(&id) }; format!("ID {}", n) }
        ["LOAD", k] => { let k = k.parse::<usize>().unwrap(); w.loads += 1;
            let id = if w.loads % 2 == 0 || k >= CACHED.len() || k == 0 || k == 5 { *w.slot = CachedInternedStringId::new(key_str(k)); w.slot.load() } else { CACHED[k].load() };
            let n: usize = unsafe { std::mem::transmute_copy(&id) }; format!("ID {}", n) }
        // API-level interning (Context::intern_utf8_str / Value::intern_utf8_str alternate): the glue requests the
        // destination and copies at once; the same few key strings are used by every thread
        ["AINTERN", h] => { let b = unhex(h); let st = String::from_utf8_lossy(&b).into_owned(); w.loads += 1;
            let id = if w.loads % 2 == 0 { shopify_function_wasm_api::Context.intern_utf8_str(&st) } else { shopify_function_wasm_api::Context.input_get().map(|v| v.intern_utf8_str(&st)).unwrap_or_else(|_| shopify_function_wasm_api::Context.intern_utf8_str(&st)) };
            let n: usize = unsafe { std::mem::transmute_copy(&id) }; format!("ID {}", n) }
        // API-level nested container writes (closures): d arrays of one element around an i32; `bad` offers a second i32 to
        // the full innermost container, the error propagates through the closures and leaves every container open
        ["ANEST", d, bad] => {
            fn nest(c: &mut shopify_function_wasm_api::Context, d: usize, bad: bool) -> Result<(), shopify_function_wasm_api::write::Error> {
                if d == 0 { c.write_i32(7)?; if bad { c.write_i32(8)?; } Ok(()) } else { c.write_array(|c| nest(c, d - 1, bad), 1) } }
            let r = nest(&mut shopify_function_wasm_api::Context, d.parse().unwrap(), *bad == "1");
            format!("ST {}", c03::api_status_pub(r)) }
        ["FIN"] => { let (r, b) = provider::write::shopify_function_output_finalize_and_return_msgpack_bytes(); format!("FIN {} {}", r as usize, c03::digest(&b)) }
        ["VIEW"] => { let (buf, base, cap, wd) = provider::log::verif_log_view();
            let seg = |p: usize, l: usize| -> Option<Vec<u8>> { if l == 0 { Some(vec![]) } else if p < base || p - base + l > cap { None } else { Some(buf[p - base..p - base + l].to_vec()) } };
            match (seg(wd[0], wd[1]), seg(wd[2], wd[3])) { (Some(mut a), Some(b)) => { a.extend(b); format!("BYTES {}", c03::digest(&a)) } _ => "BYTES OOB".into() } }
        ["OUT"] => format!("BYTES {}", c03::digest(&provider::write::verif_output_bytes())),
        _ => panic!("ctx: bad step {}", step),
    }
}

fn spawn_worker() -> (Sender<String>, Receiver<String>) {
    let (tx, rx) = channel::<String>(); let (otx, orx) = channel::<String>();
    std::thread::Builder::new().stack_size(16 << 20).spawn(move || {
        let mut w = Worker { reads: vec![], str_dest: None, intern_dest: None, log_area: 0, slot: Box::new(CachedInternedStringId::new(KEYS[0])), loads: 0 };
        for step in rx { let o = std::panic::catch_unwind(std::panic::AssertUnwindSafe(|| exec(&mut w, &step))).unwrap_or_else(|_| "PANIC".into()); if otx.send(o).is_err() { break; } }
    }).unwrap();
    (tx, orx)
}

/// Run a schedule `[(tid, step)]` on fresh threads; streams `OB <id> <tid> <obs>`.
pub fn run_schedule(id: usize, sched: &[(usize, String)], stream: bool) -> Vec<String> {
    use std::io::Write;
    let mut workers: std::collections::BTreeMap<usize, (Sender<String>, Receiver<String>)> = Default::default();
    let mut out = vec![];
    for (tid, step) in sched {
        let w = workers.entry(*tid).or_insert_with(spawn_worker);
        w.0.send(step.clone()).unwrap();
        let o = w.1.recv().unwrap_or_else(|_| "ABORT".into());
        let l = format!("{} {} {}", id, tid, o);
        if stream { println!("OB {}", l); std::io::stdout().flush().unwrap(); }
        out.push(l);
    }
    out
}

pub fn child_main() {
    use std::io::{BufRead, Write};
    let stdin = std::io::stdin(); let mut id = 0usize; let mut sched: Vec<(usize, String)> = vec![];
    for line in stdin.lock().lines() {
        let line = line.unwrap(); let t: Vec<&str> = line.splitn(3, ' ').collect();
        match t.as_slice() {
            ["CASE", rest @ ..] => { id = rest[0].parse().unwrap(); sched.clear(); }
            ["END"] => { let _ = run_schedule(id, &sched, true); println!("DONE"); std::io::stdout().flush().unwrap(); }
            ["T", tid, step] => sched.push((tid.parse().unwrap(), step.to_string())),
            _ => {}
        }
    }
}

// ---------------------------------------------------------------- generation
fn doc(r: &mut Rng) -> Vec<u8> {
    // {"foo": [1,"xy"], "k0": {"a": 2}, "bar": "s"} style documents
    use crate::wire::*;
    let w = Wire::Map(LenFmt::Fix, vec![
        (Wire::Str(StrFmt::Fix, b"foo".to_vec()), Wire::Arr(LenFmt::Fix, vec![gen_scalar(r), Wire::Str(StrFmt::Fix, b"xy".to_vec())])),
        (Wire::Str(StrFmt::Fix, b"k0".to_vec()), Wire::Map(LenFmt::Fix, vec![(Wire::Str(StrFmt::Fix, b"a".to_vec()), gen_scalar(r))])),
        (Wire::Str(StrFmt::Fix, b"bar".to_vec()), gen_str(r, true))]);
    w.bytes()
}
fn bytes(r: &mut Rng, n: usize) -> String { let s = r.below(26) as u8; hex(&(0..n).map(|i| b'a' + ((s as usize + i) % 26) as u8).collect::<Vec<u8>>()) }

/// A script of raw steps for one thread: an invocation mixing reads, writes (with split string writes),
/// interning, logging (split) and observations. `interned` = number of strings this thread has interned so far.
pub fn script(r: &mut Rng, n: usize, interned: &mut usize, cap: usize, own_ids_only: bool) -> Vec<String> {
    let mut s = vec![format!("INIT {}", hex(&doc(r)))];
    let base = if own_ids_only { *interned } else { 0 };
    let mut reads = 0usize; let mut depth: Vec<(bool, usize, usize)> = vec![];
    for _ in 0..n {
        match r.below(14) {
            0 => { s.push("R ROOT".into()); reads += 1; }
            1 => if reads > 0 { s.push(format!("R PROP 0 {}", hex(r.pick(&["foo", "k0", "bar", "zz"]).as_bytes()))); reads += 1; },
            2 => if reads > 0 { s.push(format!("R IDX {} {}", r.below(reads as u64), r.below(3))); reads += 1; },
            3 => { let l = *r.pick(&[0usize, 1, 3, 40, cap - 1, cap, cap + 7, 2 * cap + 3]); let l2 = if r.chance(85) { l } else { l / 2 }; s.push(format!("LOGPLAN {}", l)); s.push(format!("LOGCOPY {}", bytes(r, l2.max(l)))); }
            4 => { let l = if r.chance(15) { *r.pick(&[31usize, 300, 5000, 70000]) } else { r.below(8) as usize }; s.push(format!("INTERNDEST {}", l)); s.push(format!("INTERNCOPY {}", bytes(r, l))); *interned += 1; }
            5 => if *interned > base { s.push(format!("ISTR {}", base as u64 + r.below((*interned - base) as u64))); },
            6 => if *interned > base && reads > 0 { s.push(format!("RIPROP 0 {}", base as u64 + r.below((*interned - base) as u64))); reads += 1; },
            7 => { let l = *r.pick(&[0usize, 1, 2, 5, 31, 32, 300]); s.push(format!("STRDEST {}", l)); s.push(format!("STRCOPY {}", bytes(r, l))); }
            8 => if !own_ids_only { for _ in 0..(1 + r.below(3)) { let k = r.below(KEYS.len() as u64);
                if r.chance(40) { s.push(format!("AINTERN {}", hex(KEYS[k as usize].as_bytes()))); *interned += 1; } else { s.push(format!("LOAD {}", k)); } } },
            9 => { let l = *r.pick(&[0usize, 1, 2, 2]); if r.chance(50) { s.push(format!("W SOBJ {}", l)); depth.push((true, l, 0)); } else { s.push(format!("W SARR {}", l)); depth.push((false, l, 0)); } }
            10 => { s.push(match depth.pop() { Some((true, ..)) => "W FOBJ".to_string(), Some((false, ..)) => "W FARR".to_string(), None => if r.chance(50) { "W FOBJ".into() } else { "W FARR".into() } }); }
            11 => if r.chance(25) { let d = if r.chance(30) { *r.pick(&[100usize, 120, 127, 130]) } else { r.below(9) as usize }; s.push(format!("ANEST {} {}", d, if r.chance(45) { 1 } else { 0 })); }
                  else { s.push(format!("W {}", r.pick(&["NULL", "BOOL 1", "I32 -7", "I32 70000", "F64 3ff8000000000000", "STR 6b30"]))) },
            12 => s.push(r.pick(&["VIEW", "OUT", "FIN"]).to_string()),
            _ => s.push(format!("W STR {}", bytes(r, 2))),
        }
    }
    s.push("VIEW".into()); s.push("OUT".into()); s.push("FIN".into());
    s
}

fn interleavings(lens: &[usize], limit: usize, r: &mut Rng) -> Vec<Vec<usize>> {
    // all interleavings of threads' step indices when few, else `limit` random ones
    let total: usize = lens.iter().sum();
    let mut count = 1f64; let mut rem = total; for l in lens { for k in 0..*l { count *= (rem - k) as f64 / (k + 1) as f64; } rem -= l; }
    let mut out = vec![];
    if count <= limit as f64 {
        fn rec(lens: &[usize], pos: &mut Vec<usize>, cur: &mut Vec<usize>, out: &mut Vec<Vec<usize>>) {
            if (0..lens.len()).all(|t| pos[t] == lens[t]) { out.push(cur.clone()); return; }
            for t in 0..lens.len() { if pos[t] < lens[t] { pos[t] += 1; cur.push(t); rec(lens, pos, cur, out); cur.pop(); pos[t] -= 1; } }
        }
        rec(lens, &mut vec![0; lens.len()], &mut vec![], &mut out);
    } else {
        for _ in 0..limit { let mut pos = vec![0usize; lens.len()]; let mut cur = vec![];
            while (0..lens.len()).any(|t| pos[t] < lens[t]) { let live: Vec<usize> = (0..lens.len()).filter(|t| pos[*t] < lens[*t]).collect(); let t = *r.pick(&live); pos[t] += 1; cur.push(t); }
            out.push(cur); }
    }
    out
}

fn emit(out: &mut Out, id: usize, kind: &str, cap: usize, sched: &[(usize, String)], obs: &[String]) {
    out.case(&format!("CASE {} {} {} {}", id, usize::BITS, kind, cap));
    for (t, s) in sched { out.case(&format!("T {} {}", t, s)); }
    out.case("END");
    for o in obs { out.imp(o); }
}

fn block(id: usize, kind: &str, cap: usize, sched: &[(usize, String)]) -> Vec<String> {
    let mut v = vec![format!("CASE {} {} {} {}", id, usize::BITS, kind, cap)];
    for (t, s) in sched { v.push(format!("T {} {}", t, s)); }
    v.push("END".into()); v
}

pub fn run(a: &Args, out: &mut Out, kind: &str) {
    let cap = crate::c05::capacity();
    let mut iso = crate::Isolated::new("ctx");
    if let Some(f) = &a.replay {
        let text = std::fs::read_to_string(f).unwrap(); let mut id = 0usize; let mut k = String::new(); let mut sched: Vec<(usize, String)> = vec![]; let mut n = 0u64; let mut cases = 0u64;
        for line in text.lines() { let t: Vec<&str> = line.splitn(3, ' ').collect();
            match t.as_slice() {
                ["CASE", i, rest] => { id = i.parse().unwrap(); k = rest.split_whitespace().nth(1).unwrap_or("c14").to_string(); sched.clear(); }
                ["END"] => { let obs = iso.run_block(id, &block(id, &k, cap, &sched), sched.len()); n += obs.len() as u64; cases += 1; emit(out, id, &k, cap, &sched, &obs); }
                ["T", tid, step] => sched.push((tid.parse().unwrap(), step.to_string())),
                _ => {} } }
        out.stat("evaluations", n.into()); out.stat("cases", cases.into()); return;
    }
    let thorough = a.tier == "thorough";
    let mut rng = Rng::new(a.seed ^ kind.bytes().fold(0u64, |a, b| a * 31 + b as u64));
    let mut id = 0usize; let mut evals = 0u64; let mut distinct = std::collections::BTreeSet::<String>::new();
    let mut stepk = std::collections::BTreeMap::<String, u64>::new(); let mut between = 0u64;
    let mut run_one = |out: &mut Out, iso: &mut crate::Isolated, id: &mut usize, sched: Vec<(usize, String)>| {
        let obs = iso.run_block(*id, &block(*id, kind, cap, &sched), sched.len());
        for (_, s) in &sched { *stepk.entry(s.split_whitespace().next().unwrap().to_string()).or_insert(0) += 1; }
        // an interleaving point falls between a destination/plan request and its copy
        for w in sched.windows(3) { if (w[0].1.starts_with("LOGPLAN") || w[0].1.starts_with("STRDEST") || w[0].1.starts_with("INTERNDEST")) && w[1].0 != w[0].0 { between += 1; } }
        evals += sched.len() as u64;
        distinct.insert(sched.iter().map(|(t, s)| format!("{}:{}", t, s.split_whitespace().next().unwrap())).collect::<Vec<_>>().join(","));
        emit(out, *id, kind, cap, &sched, &obs); *id += 1;
    };
    match kind {
        "c14" => {
            let nsets = if thorough { 40 } else { 12 };
            for si in 0..nsets {
                let mut r = rng.fork(si as u64);
                let nthreads = if r.chance(35) { 3 } else { 2 };
                let mut scripts = vec![];
                for _ in 0..nthreads { let mut interned = 0; let k = if nthreads == 3 { r.range(1, 2) } else { r.range(1, 3) } as usize; let mut s = script(&mut r, k, &mut interned, cap, false);
                    // always one split log call and one split string write per thread
                    let l = *r.pick(&[3usize, 5, 40, cap + 3]); s.insert(1, format!("LOGPLAN {}", l)); s.insert(2, format!("LOGCOPY {}", bytes(&mut r, l)));
                    scripts.push(s); }
                let lens: Vec<usize> = scripts.iter().map(|s| s.len()).collect();
                for il in interleavings(&lens, if thorough { 3000 } else { 30 }, &mut r) {
                    let mut pos = vec![0usize; nthreads]; let mut sched = vec![];
                    for t in il { sched.push((t + 1, scripts[t][pos[t]].clone())); pos[t] += 1; }
                    run_one(out, &mut iso, &mut id, sched);
                }
            }
            // both threads intern the same key strings through the API in different orders, then write by the ids they got
            for (a, b) in [("foo", "bar"), ("k0", "title")] {
                let w = vec![(1usize, "INIT c0".to_string()), (2, "INIT c0".into()), (1, format!("AINTERN {}", hex(a.as_bytes()))), (2, format!("AINTERN {}", hex(b.as_bytes()))),
                    (2, format!("AINTERN {}", hex(a.as_bytes()))), (1, format!("AINTERN {}", hex(b.as_bytes()))), (1, "W SARR 2".into()), (1, "ISTR 0".into()), (1, "ISTR 1".into()), (1, "W FARR".into()),
                    (2, "W SARR 2".into()), (2, "ISTR 0".into()), (2, "ISTR 1".into()), (2, "W FARR".into()), (1, "OUT".into()), (2, "OUT".into())];
                run_one(out, &mut iso, &mut id, w);
            }
            // threads with DIFFERENT interning histories: the empty string, static cached handles loaded in different orders,
            // by-id lookups of a duplicated key after another thread resolved the same numeric id elsewhere
            {
                let h = |b: &[u8]| hex(b);
                let w = vec![(1usize, "INIT c0".to_string()), (2, "INIT c0".into()), (1, "INTERNDEST 3".into()), (1, format!("INTERNCOPY {}", h(b"abc"))), (1, "INTERNDEST 2".into()), (1, format!("INTERNCOPY {}", h(b"de"))),
                    (1, "INTERNDEST 0".into()), (1, "INTERNCOPY -".into()), (2, "INTERNDEST 1".into()), (2, format!("INTERNCOPY {}", h(b"k"))), (2, "INTERNDEST 0".into()), (2, "INTERNCOPY -".into()),
                    (2, "W SARR 2".into()), (2, "ISTR 0".into()), (2, "ISTR 1".into()), (2, "W FARR".into()), (2, "OUT".into()), (1, "W SARR 1".into()), (1, "ISTR 2".into()), (1, "OUT".into())];
                run_one(out, &mut iso, &mut id, w);
                // {"title":1,"k1":2}
                let d = h(&[0x82, 0xa5, b't', b'i', b't', b'l', b'e', 0x01, 0xa2, b'k', b'1', 0x02]);
                let w = vec![(1usize, format!("INIT {}", d)), (2, format!("INIT {}", d)), (1, "SLOAD 5".into()), (2, "SLOAD 3".into()), (2, "SLOAD 5".into()), (2, "R ROOT".into()), (2, "RIPROP 0 1".into()), (2, "RIPROP 0 0".into()),
                    (2, "W SOBJ 1".into()), (2, "ISTR 1".into()), (2, "W I32 -7".into()), (2, "W FOBJ".into()), (2, "OUT".into()), (1, "SLOAD 3".into()), (1, "R ROOT".into()), (1, "RIPROP 0 1".into()), (1, "RIPROP 0 0".into())];
                run_one(out, &mut iso, &mut id, w);
                // {"b":3,"b":4} on thread 1, {"y":0,"x":1} on thread 2; both intern their key as id 0
                let d1 = h(&[0x82, 0xa1, b'b', 0x03, 0xa1, b'b', 0x04]); let d2 = h(&[0x82, 0xa1, b'y', 0x00, 0xa1, b'x', 0x01]);
                let w = vec![(1usize, format!("INIT {}", d1)), (2, format!("INIT {}", d2)), (1, "INTERNDEST 1".into()), (1, format!("INTERNCOPY {}", h(b"b"))), (2, "INTERNDEST 1".into()), (2, format!("INTERNCOPY {}", h(b"x"))),
                    (1, "R ROOT".into()), (1, "R IDX 0 1".into()), (2, "R ROOT".into()), (2, "RIPROP 0 0".into()), (1, "RIPROP 0 0".into()), (1, "R PROP 0 62".into()), (2, "RIPROP 0 0".into())];
                run_one(out, &mut iso, &mut id, w);
            }
            // the known-bad shape: T1 plan, T2 plan, T1 copy
            let w = vec![(1usize, "INIT c0".to_string()), (2, "INIT c0".into()), (1, "LOGPLAN 3".into()), (2, "LOGPLAN 5".into()), (1, format!("LOGCOPY {}", hex(b"ABC"))), (1, "VIEW".into()), (2, "VIEW".into())];
            run_one(out, &mut iso, &mut id, w);
        }
        _ => { // c12 / c13: one thread, several invocations
            let n = if thorough { 1500 } else { 150 };
            for i in 0..n {
                let mut r = rng.fork(i as u64); let mut interned = 0usize; let mut sched = vec![];
                let ninv = r.range(if kind == "c13" { 2 } else { 1 }, if kind == "c13" { 5 } else { 3 }) as usize;
                if kind == "c12" && i % 10 == 3 { // ids must survive storage growth AND new invocations (fresh thread: ids 0, 1, then 2)
                    let big = *r.pick(&[66000usize, 70000, 140000]);
                    for st in [format!("INIT {}", hex(&doc(&mut r))), "INTERNDEST 3".to_string(), format!("INTERNCOPY {}", hex(b"foo")), format!("INTERNDEST {}", big), format!("INTERNCOPY {}", bytes(&mut r, big)),
                               format!("INIT {}", hex(&doc(&mut r))), "R ROOT".to_string(), "RIPROP 0 0".to_string(), "W SARR 2".to_string(), "ISTR 0".to_string(), "ISTR 1".to_string(),
                               "INTERNDEST 2".to_string(), format!("INTERNCOPY {}", hex(b"k0")), "RIPROP 0 2".to_string(), "OUT".to_string()] { sched.push((1usize, st)); }
                    interned = 3;
                }
                for _ in 0..ninv { let k = r.range(3, 14) as usize; for s in script(&mut r, k, &mut interned, cap, kind == "c13") { sched.push((1usize, s)); } }
                if kind == "c12" && r.chance(30) { // a second thread loading the same cached keys
                    for s in ["INIT c0", "LOAD 0", "LOAD 1", "ISTR 0", "LOAD 0", "OUT"] { sched.push((2, s.to_string())); } }
                run_one(out, &mut iso, &mut id, sched);
            }
        }
    }
    out.stat("cases", id.into()); out.stat("evaluations", evals.into()); out.stat("distinct_nontrivial", (distinct.len() as u64).into());
    out.stat("steps", serde_json::to_value(&stepk).unwrap());
    out.stat("schedule_points_between_request_and_copy", between.into());
    out.stat("rule", match kind {
        "c14" => "2-3 real OS threads each running its own invocation script (reads, writes, split string writes, split interning, split log calls, observations); all interleavings of the scripts' steps enumerated when <= the tier's limit, else sampled; plus the T1-plan/T2-plan/T1-copy shape; per-thread observations compared with the model and with the same script alone; distinct = distinct (thread, step kind) schedules; non-trivial = every case (at least two threads interleaved)",
        "c13" => "one thread, 2-5 successive invocations each an arbitrary mix of reads, finished/abandoned/rejected writes, logs and interning; every invocation is compared with the model and with the same invocation on a fresh thread (ids erased)",
        _ => "one thread (30%: plus a second thread loading the same cached keys), 1-3 invocations mixing interning (lengths 0..7), writes by id, property lookups by id, cached-id loads; compared with the model and with the same script using the original bytes instead of ids",
    }.into());
}
