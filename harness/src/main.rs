//! Correspondence harness: runs the real implementation (/repo working tree, hooks on) on
//! generated cases and writes (a) the cases for the Coq-extracted model driver and (b) what the
//! implementation answered, one line per observation.
mod prng;
mod wire;
mod c01;
mod c03;
mod c05;
mod c09;
mod ctx;
mod c06;
mod c10;

use std::io::Write;

pub struct Out {
    pub cases: std::io::BufWriter<std::fs::File>,
    pub imp: std::io::BufWriter<std::fs::File>,
    pub stats: serde_json::Map<String, serde_json::Value>,
}
impl Out {
    pub fn case(&mut self, s: &str) { writeln!(self.cases, "{}", s).unwrap(); }
    pub fn imp(&mut self, s: &str) { writeln!(self.imp, "{}", s).unwrap(); }
    pub fn stat(&mut self, k: &str, v: serde_json::Value) { self.stats.insert(k.to_string(), v); }
}


/// A watchdog for a child process: while armed, the child is killed when it makes no progress for `limit_ms`
/// (an implementation that loops forever is observed as the death of the child, i.e. as `ABORT` of the call in flight).
pub struct Watchdog { last: std::sync::Arc<std::sync::atomic::AtomicU64>, armed: std::sync::Arc<std::sync::atomic::AtomicBool>, stop: std::sync::Arc<std::sync::atomic::AtomicBool>, pub fired: std::sync::Arc<std::sync::atomic::AtomicBool> }
fn now_ms() -> u64 { std::time::SystemTime::now().duration_since(std::time::UNIX_EPOCH).unwrap().as_millis() as u64 }
impl Watchdog {
    pub fn new(pid: u32, limit_ms: u64) -> Watchdog {
        use std::sync::{Arc, atomic::{AtomicBool, AtomicU64, Ordering}};
        let w = Watchdog { last: Arc::new(AtomicU64::new(now_ms())), armed: Arc::new(AtomicBool::new(false)), stop: Arc::new(AtomicBool::new(false)), fired: Arc::new(AtomicBool::new(false)) };
        let (last, armed, stop, fired) = (w.last.clone(), w.armed.clone(), w.stop.clone(), w.fired.clone());
        std::thread::spawn(move || { loop {
            std::thread::sleep(std::time::Duration::from_millis(250));
            if stop.load(Ordering::Relaxed) { break; }
            if armed.load(Ordering::Relaxed) && now_ms().saturating_sub(last.load(Ordering::Relaxed)) > limit_ms {
                fired.store(true, Ordering::Relaxed);
                let _ = std::process::Command::new("kill").arg("-9").arg(pid.to_string()).status();
                break;
            } } });
        w
    }
    pub fn arm(&self) { self.last.store(now_ms(), std::sync::atomic::Ordering::Relaxed); self.armed.store(true, std::sync::atomic::Ordering::Relaxed); }
    pub fn tick(&self) { self.last.store(now_ms(), std::sync::atomic::Ordering::Relaxed); }
    pub fn disarm(&self) { self.armed.store(false, std::sync::atomic::Ordering::Relaxed); }
}
impl Drop for Watchdog { fn drop(&mut self) { self.stop.store(true, std::sync::atomic::Ordering::Relaxed); } }
pub const HANG_LIMIT_MS: u64 = 30_000;

/// Crash isolation for components whose implementation may corrupt memory or abort: case blocks are
/// executed in a child process (this binary, `<comp>-child`), which prints `OB <observation>` after
/// every call and `DONE` after a block; a dead child yields `<id> ABORT` for the call in flight.
pub struct Isolated { comp: String, child: Option<(std::process::Child, std::io::BufReader<std::process::ChildStdout>, Watchdog)> }
impl Isolated {
    pub fn new(comp: &str) -> Isolated { Isolated { comp: comp.to_string(), child: None } }
    pub fn run_block(&mut self, id: usize, lines: &[String], expected: usize) -> Vec<String> {
        use std::io::{BufRead, Write};
        if self.child.is_none() {
            let exe = std::env::current_exe().unwrap();
            let mut p = std::process::Command::new(exe).arg(format!("{}-child", self.comp))
                .stdin(std::process::Stdio::piped()).stdout(std::process::Stdio::piped()).stderr(std::process::Stdio::null()).spawn().unwrap();
            let rd = std::io::BufReader::new(p.stdout.take().unwrap());
            let wd = Watchdog::new(p.id(), HANG_LIMIT_MS);
            self.child = Some((p, rd, wd));
        }
        let mut obs = vec![];
        let (p, rd, wd) = self.child.as_mut().unwrap();
        wd.arm();
        let mut dead = false;
        { let si = p.stdin.as_mut().unwrap(); for l in lines { if writeln!(si, "{}", l).is_err() { dead = true; break; } } let _ = si.flush(); }
        while !dead {
            let mut l = String::new();
            match rd.read_line(&mut l) {
                Ok(0) | Err(_) => dead = true,
                Ok(_) => { wd.tick(); let l = l.trim_end(); if l == "DONE" { break; } else if let Some(o) = l.strip_prefix("OB ") { obs.push(o.to_string()); } }
            }
        }
        wd.disarm();
        if dead {
            if obs.len() < expected { obs.push(format!("{} ABORT", id)); }
            while obs.len() < expected { obs.push(format!("{} SKIPPED", id)); }
            if let Some((mut p, _, _)) = self.child.take() { let _ = p.kill(); let _ = p.wait(); }
        }
        obs
    }
}

pub struct Args { pub seed: u64, pub tier: String, pub out: String, pub replay: Option<String>, pub n: Option<u64>, pub corpus: Option<String> }

fn main() {
    // a run that takes absurdly long (an implementation or a tool that loops for ever) ends with an error instead of stalling the check
    { let tier_thorough = std::env::args().any(|a| a == "thorough"); let limit: u64 = std::env::var("VERIF_HARNESS_DEADLINE_S").ok().and_then(|x| x.parse().ok()).unwrap_or(if tier_thorough { 3000 } else { 600 });
      std::thread::spawn(move || { std::thread::sleep(std::time::Duration::from_secs(limit)); eprintln!("harness deadline of {} s exceeded (something loops for ever?)", limit); std::process::exit(3); }); }

    let argv: Vec<String> = std::env::args().collect();
    if argv.len() < 2 { eprintln!("usage: sfv_harness <component> --seed N --tier quick|thorough --out DIR [--replay FILE]"); std::process::exit(2); }
    let comp = argv[1].clone();
    if comp == "c03-child" { std::panic::set_hook(Box::new(|_| {})); c03::child_main(); return; }
    if comp == "ctx-child" { std::panic::set_hook(Box::new(|_| {})); ctx::child_main(); return; }
    if comp == "c05-child" { std::panic::set_hook(Box::new(|_| {})); c05::child_main(); return; }
    if comp == "reader-child" { std::panic::set_hook(Box::new(|_| {})); c01::child_main(); return; }
    let mut a = Args { seed: 1, tier: "quick".into(), out: ".".into(), replay: None, n: None, corpus: None };
    let mut i = 2;
    while i < argv.len() {
        match argv[i].as_str() {
            "--seed" => { a.seed = argv[i+1].parse().unwrap(); i += 2; }
            "--tier" => { a.tier = argv[i+1].clone(); i += 2; }
            "--out" => { a.out = argv[i+1].clone(); i += 2; }
            "--replay" => { a.replay = Some(argv[i+1].clone()); i += 2; }
            "--corpus" => { a.corpus = Some(argv[i+1].clone()); i += 2; }
            "--n" => { a.n = Some(argv[i+1].parse().unwrap()); i += 2; }
            x => { eprintln!("unknown arg {}", x); std::process::exit(2); }
        }
    }
    std::fs::create_dir_all(&a.out).unwrap();
    let mut out = Out {
        cases: std::io::BufWriter::new(std::fs::File::create(format!("{}/cases.txt", a.out)).unwrap()),
        imp: std::io::BufWriter::new(std::fs::File::create(format!("{}/impl.txt", a.out)).unwrap()),
        stats: serde_json::Map::new(),
    };
    // silence panic messages of caught panics (they are reported as PANIC observations)
    std::panic::set_hook(Box::new(|_| {}));
    match comp.as_str() {
        "c01" => c01::run(&a, &mut out),
        "c08" => c01::run_c08(&a, &mut out),
        "c11" => c01::run_c11(&a, &mut out),
        "c02" => c03::run(&a, &mut out, true),
        "c03" => c03::run(&a, &mut out, false),
        "c05" => c05::run(&a, &mut out),
        "c09" => c09::run(&a, &mut out),
        "c12" => ctx::run(&a, &mut out, "c12"),
        "c13" => ctx::run(&a, &mut out, "c13"),
        "c14" => ctx::run(&a, &mut out, "c14"),
        "c06" => c06::run(&a, &mut out),
        "c10" => c10::run(&a, &mut out),
        x => { eprintln!("unknown component {}", x); std::process::exit(2); }
    }
    out.cases.flush().unwrap();
    out.imp.flush().unwrap();
    std::fs::write(format!("{}/stats.json", a.out), serde_json::to_string_pretty(&serde_json::Value::Object(out.stats)).unwrap()).unwrap();
}
