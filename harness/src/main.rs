//! Correspondence harness: runs the real implementation (/repo working tree, hooks on) on
//! generated cases and writes (a) the cases for the Coq-extracted model driver and (b) what the
//! implementation answered, one line per observation.
mod prng;
mod wire;
mod c01;
mod c03;
mod c05;
mod c06;
mod c10;

use std::io::Write;

pub struct Out {
    pub cases: std::io::BufWriter<std::fs::File>,
    pub imp: std::io::BufWriter<std::fs::File>,
    pub stats: serde_json::Map<String, serde_json::Value>,
}
impl Out {
    pub fn case(&mut self, s: &str) { writeln!(self.cases, "{}", s).unwrap(); }
    pub fn imp(&mut self, s: &str) { writeln!(self.imp, "{}", s).unwrap(); }
    pub fn stat(&mut self, k: &str, v: serde_json::Value) { self.stats.insert(k.to_string(), v); }
}

pub struct Args { pub seed: u64, pub tier: String, pub out: String, pub replay: Option<String>, pub n: Option<u64>, pub corpus: Option<String> }

fn main() {
    let argv: Vec<String> = std::env::args().collect();
    if argv.len() < 2 { eprintln!("usage: sfv_harness <component> --seed N --tier quick|thorough --out DIR [--replay FILE]"); std::process::exit(2); }
    let comp = argv[1].clone();
    if comp == "reader-child" { std::panic::set_hook(Box::new(|_| {})); c01::child_main(); return; }
    let mut a = Args { seed: 1, tier: "quick".into(), out: ".".into(), replay: None, n: None, corpus: None };
    let mut i = 2;
    while i < argv.len() {
        match argv[i].as_str() {
            "--seed" => { a.seed = argv[i+1].parse().unwrap(); i += 2; }
            "--tier" => { a.tier = argv[i+1].clone(); i += 2; }
            "--out" => { a.out = argv[i+1].clone(); i += 2; }
            "--replay" => { a.replay = Some(argv[i+1].clone()); i += 2; }
            "--corpus" => { a.corpus = Some(argv[i+1].clone()); i += 2; }
            "--n" => { a.n = Some(argv[i+1].parse().unwrap()); i += 2; }
            x => { eprintln!("unknown arg {}", x); std::process::exit(2); }
        }
    }
    std::fs::create_dir_all(&a.out).unwrap();
    let mut out = Out {
        cases: std::io::BufWriter::new(std::fs::File::create(format!("{}/cases.txt", a.out)).unwrap()),
        imp: std::io::BufWriter::new(std::fs::File::create(format!("{}/impl.txt", a.out)).unwrap()),
        stats: serde_json::Map::new(),
    };
    // silence panic messages of caught panics (they are reported as PANIC observations)
    std::panic::set_hook(Box::new(|_| {}));
    match comp.as_str() {
        "c01" => c01::run(&a, &mut out),
        "c08" => c01::run_c08(&a, &mut out),
        "c02" => c03::run(&a, &mut out, true),
        "c03" => c03::run(&a, &mut out, false),
        "c05" => c05::run(&a, &mut out),
        "c06" => c06::run(&a, &mut out),
        "c10" => c10::run(&a, &mut out),
        x => { eprintln!("unknown component {}", x); std::process::exit(2); }
    }
    out.cases.flush().unwrap();
    out.imp.flush().unwrap();
    std::fs::write(format!("{}/stats.json", a.out), serde_json::to_string_pretty(&serde_json::Value::Object(out.stats)).unwrap()).unwrap();
}
